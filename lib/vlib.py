"""Shared machinery for /verif/bin/check: TLC runs, driver builds, verdicts.

Exit codes of a check: 0 = property held on everything explored,
1 = violation reproduced on the real code (VIOLATION line printed),
2 = the check itself is broken (TLC error, driver error, time-out, ...).
"""
import json, os, re, shutil, subprocess, sys, tempfile, time, hashlib

VERIF = os.path.dirname(os.path.dirname(os.path.abspath(__file__)))
REPO = os.environ.get("VERIF_REPO", "/repo")
SPEC = os.path.join(VERIF, "spec")
HARNESS = os.path.join(VERIF, "harness")
EVID = os.environ.get("VERIF_EVID", os.path.join(VERIF, "evidence"))
REPLAYS = os.environ.get("VERIF_REPLAYS", os.path.join(VERIF, "replays"))
NCPU = os.cpu_count() or 4

GOENV = dict(os.environ, GOFLAGS="-mod=mod", GOPROXY="off", GOSUMDB="off",
             GOTOOLCHAIN="local", CGO_ENABLED="0")


class Broken(Exception):
    """The check could not do its job (never a verdict about the code)."""


def log(*a):
    print("[check]", *a, file=sys.stderr, flush=True)


class Scratch:
    def __init__(self, name):
        base = os.environ.get("VERIF_SCRATCH")
        if not base:
            base = "/dev/shm" if os.path.isdir("/dev/shm") else tempfile.gettempdir()
        self.dir = tempfile.mkdtemp(prefix="verif-%s-" % name, dir=base)

    def path(self, *p):
        return os.path.join(self.dir, *p)

    def cleanup(self):
        if os.environ.get("VERIF_KEEP"):
            log("scratch kept:", self.dir)
            return
        shutil.rmtree(self.dir, ignore_errors=True)


# --------------------------------------------------------------------------
# TLC

TRACE_RE = re.compile(r'^<<"(TRACE|GRAPHS|CASE)", "(.*)">>$')


def _unescape(s):
    # TLC prints the string with \" and \\ escapes
    return json.loads('"' + s + '"')


def run_tlc(scratch, tla, cfg, *, simulate=None, depth=None, seed=0, workers=None,
            timeout=600, out_traces=None, coverage=False, tag="tlc", extra_files=(), deadlock=True,
            heap=None, append_traces=False, cfg_subst=None, emit_every=1, emit_offset=0):
    """Run TLC on spec/<tla> with spec/<cfg>. TRACE lines are written (as
    JSON, one per line) to out_traces; GRAPHS/CASE lines are returned.
    Returns a dict with states/distinct/depth/ok/errors/coverage."""
    wd = scratch.path(tag)
    os.makedirs(wd, exist_ok=True)
    for f in os.listdir(SPEC):
        if f.endswith(".tla"):
            shutil.copy(os.path.join(SPEC, f), wd)
    shutil.copy(os.path.join(SPEC, cfg), wd)
    if cfg_subst:
        # per-check variation of a committed configuration (e.g. which rolled-back
        # transactions are generated); every substitution must apply
        text = open(os.path.join(wd, cfg)).read()
        for old, new in cfg_subst.items():
            if old not in text:
                raise Broken("cfg substitution %r does not apply to %s" % (old, cfg))
            text = text.replace(old, new)
        open(os.path.join(wd, cfg), "w").write(text)
    for f in extra_files:
        shutil.copy(f, wd)
    cmd = ["tlc", "-metadir", os.path.join(wd, "md"), "-config", cfg]
    if workers is None:
        workers = NCPU
    if simulate is not None:
        cmd += ["-workers", "1", "-simulate", "num=%d" % simulate, "-depth", str(depth), "-seed", str(seed)]
    else:
        cmd += ["-workers", str(workers)]
        if not deadlock:
            cmd += ["-deadlock"]
    if coverage:
        cmd += ["-coverage", "1"]
    cmd.append(tla)
    env = dict(os.environ)
    # sampling of the emitted behaviours inside TLC (specs that read IOEnv.VERIF_EMIT_EVERY)
    env["VERIF_EMIT_EVERY"] = str(int(emit_every))
    env["VERIF_EMIT_OFFSET"] = str(int(emit_offset) % max(1, int(emit_every)))
    if heap:
        env["JAVA_TOOL_OPTIONS"] = (env.get("JAVA_TOOL_OPTIONS", "") + " -Xmx%s" % heap).strip()
    t0 = time.time()
    res = {"cmd": " ".join(cmd), "generated": 0, "distinct": 0, "depth": 0, "ok": False,
           "errors": [], "other": {}, "ntraces": 0, "coverage_zero": [], "coverage": {}}
    tf = open(out_traces, "a" if append_traces else "w") if out_traces else None
    tail = []
    try:
        p = subprocess.Popen(cmd, cwd=wd, stdout=subprocess.PIPE, stderr=subprocess.STDOUT,
                             text=True, env=env, bufsize=1 << 20)
        deadline = t0 + timeout
        for line in p.stdout:
            line = line.rstrip("\n")
            m = TRACE_RE.match(line)
            if m:
                kind, payload = m.group(1), _unescape(m.group(2))
                if kind == "TRACE":
                    if tf:
                        tf.write(payload + "\n")
                    res["ntraces"] += 1
                else:
                    res["other"].setdefault(kind, []).append(payload)
                continue
            tail.append(line)
            if len(tail) > 400:
                tail = tail[-200:]
            m = re.match(r"^(\d[\d,]*) states generated, (\d[\d,]*) distinct states found", line)
            if m:
                res["generated"] = int(m.group(1).replace(",", ""))
                res["distinct"] = int(m.group(2).replace(",", ""))
            m = re.match(r"^The depth of the complete state graph search is (\d+)", line)
            if m:
                res["depth"] = int(m.group(1))
            m = re.match(r"^The number of states generated: (\d[\d,]*)", line)
            if m:   # simulation mode
                res["generated"] = int(m.group(1).replace(",", ""))
            if "Model checking completed. No error has been found" in line:
                res["ok"] = True
            if simulate is not None and ("Simulation completed" in line or line.startswith("Finished in")):
                res["ok"] = not res["errors"]
            if line.startswith("Error:") or "is violated" in line or "Exception" in line \
                    or "Deadlock reached" in line or "was violated" in line:
                res["errors"].append(line)
            if coverage:
                m = re.match(r"^<(\w+) line (\d+), col (\d+) to line \d+, col \d+ of module (\w+)>: (\d+):(\d+)", line)
                if m:
                    name = m.group(1)
                    res["coverage"][name] = res["coverage"].get(name, 0) + int(m.group(6))
            if time.time() > deadline:
                p.kill()
                raise Broken("TLC timed out after %ds: %s" % (timeout, res["cmd"]))
        p.wait()
        res["exit"] = p.returncode
    finally:
        if tf:
            tf.close()
    res["wall_s"] = round(time.time() - t0, 1)
    res["tail"] = tail[-40:]
    if coverage:
        res["coverage_zero"] = sorted(k for k, v in res["coverage"].items() if v == 0)
    if res["errors"]:
        res["ok"] = False
    shutil.rmtree(os.path.join(wd, "md"), ignore_errors=True)
    return res


def coverage_check(scratch, tla, cfg, actions, tag="cov", timeout=1200, cfg_subst=None):
    """Thorough tier: run the configuration once more without behaviour emission but with
    -coverage 1 and require every named action to have been taken (vacuity guard)."""
    text = open(os.path.join(SPEC, cfg)).read()
    subst = dict(cfg_subst or {})
    for line in text.splitlines():
        if line.startswith("ACTION_CONSTRAINT"):
            subst[line + "\n"] = ""
    r = run_tlc(scratch, tla, cfg, tag=tag, timeout=timeout, coverage=True, cfg_subst=subst)
    require_tlc_ok(r, "coverage run of " + cfg)
    dead = [a for a in actions if r["coverage"].get(a, None) == 0]
    missing = [a for a in actions if a not in r["coverage"]]
    if dead:
        raise Broken("actions never taken in %s: %s" % (cfg, dead))
    return {"actions_covered": {a: r["coverage"].get(a) for a in actions if a in r["coverage"]}, "not_reported": missing}


def op_reachable(scratch, tla, cfg, op, cfg_subst=None):
    """Is operation `op` taken somewhere in the state graph of (tla, cfg)?  TLC is run with the invariant NeverOp
    (the spec reads VERIF_NEVER_OP), which is violated exactly when the operation is taken."""
    subst = dict(cfg_subst or {})
    subst["CHECK_DEADLOCK FALSE"] = "INVARIANT NeverOp\nCHECK_DEADLOCK FALSE"
    os.environ["VERIF_NEVER_OP"] = op
    try:
        r = run_tlc(scratch, tla, cfg, tag="reach-" + op, cfg_subst=subst, emit_every=10 ** 9, emit_offset=1, timeout=900)
    finally:
        os.environ.pop("VERIF_NEVER_OP", None)
    return any("NeverOp is violated" in e for e in r["errors"])


def op_histogram(traces_path, required, what, probe=None):
    """Vacuity guard on emitted behaviours: how often each operation is the LAST step of a
    behaviour (= a transition of the explored state graph). A required operation that never
    occurs makes the check broken, not passing."""
    counts = {}
    rx = re.compile(r'"op":"([A-Za-z]+)"')
    with open(traces_path) as f:
        for line in f:
            k = line.rfind('"exp":')       # the trailing expectation of the whole behaviour
            ops = rx.findall(line[:k] if k > 0 else line)
            if ops:
                counts[ops[-1]] = counts.get(ops[-1], 0) + 1
    dead = [a for a in required if counts.get(a, 0) == 0]
    if dead and probe:
        # the behaviours were sampled: an operation missing from the sample may still be in the state graph
        dead = [a for a in dead if not probe(a)]
    if dead:
        raise Broken("%s: operations never taken in the explored state graph: %s" % (what, dead))
    return counts


def require_tlc_ok(res, what):
    if not res["ok"]:
        raise Broken("%s: TLC did not finish cleanly: %s\n%s" % (what, res["errors"][:5], "\n".join(res["tail"][-25:])))


# --------------------------------------------------------------------------
# Go drivers

def ensure_gosum():
    """go.sum of the harness = committed one; refreshed from /repo's when that is newer content."""
    dst = os.path.join(HARNESS, "go.sum")
    if not os.path.exists(dst):
        shutil.copy(os.path.join(REPO, "go.sum"), dst)


def harness_dir(scratch):
    """The harness module replaces the six btcwallet modules by /repo/...; when
    VERIF_REPO points elsewhere (a scratch worktree used for mutation testing)
    a copy of the harness with rewritten replace directives is built instead."""
    if os.path.abspath(REPO) == "/repo":
        return HARNESS
    dst = scratch.path("harness")
    if not os.path.isdir(dst):
        shutil.copytree(HARNESS, dst)
        gm = open(os.path.join(dst, "go.mod")).read().replace("=> /repo", "=> " + os.path.abspath(REPO))
        open(os.path.join(dst, "go.mod"), "w").write(gm)
    return dst


def build_driver(scratch, name, tags="verif"):
    ensure_gosum()
    out = scratch.path("bin-" + name)
    cmd = ["go", "build", "-tags", tags, "-o", out, "./cmd/" + name]
    t0 = time.time()
    p = subprocess.run(cmd, cwd=harness_dir(scratch), env=GOENV, stdout=subprocess.PIPE, stderr=subprocess.STDOUT, text=True)
    if p.returncode != 0:
        raise Broken("go build %s failed:\n%s" % (name, p.stdout[-4000:]))
    log("built %s in %.1fs" % (name, time.time() - t0))
    return out


def run_driver(binpath, args, timeout=3600, env=None):
    e = dict(GOENV)
    if env:
        e.update(env)
    t0 = time.time()
    try:
        p = subprocess.run([binpath] + [str(a) for a in args], stdout=subprocess.PIPE, stderr=subprocess.STDOUT,
                           text=True, timeout=timeout, env=e)
    except subprocess.TimeoutExpired:
        raise Broken("driver %s timed out after %ds" % (os.path.basename(binpath), timeout))
    if p.returncode != 0:
        raise Broken("driver %s exited %d:\n%s" % (os.path.basename(binpath), p.returncode, p.stdout[-4000:]))
    log("driver %s ran %.1fs" % (os.path.basename(binpath), time.time() - t0))
    return p.stdout


def load_report(path):
    with open(path) as f:
        return json.load(f)


# --------------------------------------------------------------------------
# Verdict, known findings, evidence

def known_findings():
    p = os.path.join(VERIF, "known_findings.json")
    if not os.path.exists(p):
        return []
    with open(p) as f:
        return json.load(f).get("findings", [])


def match_finding(prop, sig, what=""):
    """An open finding suppresses exactly the violations whose signature
    matches its regular expression. Fixed entries suppress nothing."""
    for f in known_findings():
        if f.get("status") != "open" or f.get("property") != prop:
            continue
        if re.search(f["sig_regex"], sig) and (not f.get("what_regex") or re.search(f["what_regex"], what)):
            return f
    return None


class Result:
    def __init__(self, prop, tier, seed, level):
        self.prop, self.tier, self.seed, self.level = prop, tier, seed, level
        self.coverage = {}
        self.assumptions = []
        self.mismatches = []      # dicts with prop, sig, what, observed, expected, behaviour
        self.errors = []
        self.t0 = time.time()
        self.write_evidence = True

    def add_report(self, rep):
        self.mismatches += (rep.get("mismatches") or [])
        self.errors += (rep.get("errors") or [])

    def finish(self):
        os.makedirs(EVID, exist_ok=True)
        os.makedirs(REPLAYS, exist_ok=True)
        viol, known = [], {}
        for m in self.mismatches:
            f = match_finding(self.prop, m.get("sig", ""), str(m.get("what", "")))
            if f:
                known.setdefault(f["id"], (f, 0))
                known[f["id"]] = (f, known[f["id"]][1] + 1)
            else:
                viol.append(m)
        code = 0
        for fid, (f, n) in sorted(known.items()):
            print("KNOWN-FINDING: property=%s %s: %s (%d occurrence(s) this run)" % (self.prop, fid, f["summary"], n))
        seen = set()
        nprinted = 0
        for old in os.listdir(REPLAYS) if self.write_evidence else []:
            if old.startswith(self.prop + "-"):
                os.unlink(os.path.join(REPLAYS, old))
        for m in viol:
            key = m.get("sig", "")
            if key in seen:
                continue
            seen.add(key)
            if nprinted >= 20:
                continue
            h = hashlib.sha1(json.dumps(m, sort_keys=True).encode()).hexdigest()[:10]
            path = os.path.join(REPLAYS, "%s-%s.json" % (self.prop, h))
            with open(path, "w") as f:
                json.dump(m, f, indent=1)
            print("VIOLATION property=%s replay=%s" % (self.prop, path))
            print("  %s: %s | observed=%s expected=%s" % (m.get("sig"), m.get("what"),
                  json.dumps(m.get("observed"))[:300], json.dumps(m.get("expected"))[:300]))
            nprinted += 1
            code = 1
        if self.errors:
            for e in self.errors[:10]:
                log("ERROR:", e)
            if code == 0:
                code = 2
        ev = {
            "property_id": self.prop, "tier": self.tier, "seed": self.seed, "level": self.level,
            "coverage": self.coverage, "assumptions": self.assumptions,
            "wall_s": round(time.time() - self.t0, 1), "violations": len(seen),
        }
        if known:
            ev["coverage"]["known_findings_hit"] = {k: v[1] for k, v in known.items()}
        if self.write_evidence:
            with open(os.path.join(EVID, "%s.json" % self.prop), "w") as f:
                json.dump(ev, f, indent=1)
        log("%s %s: exit %d in %.0fs" % (self.prop, self.tier, code, time.time() - self.t0))
        return code


def seed_from_env():
    try:
        return int(os.environ.get("VERIF_SEED", "1"))
    except ValueError:
        return 1


def merge_ndjson(dst, srcs):
    with open(dst, "w") as o:
        for s in srcs:
            with open(s) as i:
                shutil.copyfileobj(i, o)


def sample_lines(path, every, out, offset=0):
    """Keep every n-th line (deterministic subsampling for the quick tier)."""
    n = 0
    with open(path) as i, open(out, "w") as o:
        for k, line in enumerate(i):
            if (k + offset) % every == 0:
                o.write(line)
                n += 1
    return n


# --------------------------------------------------------------------------
# Binding self-test: a comparison that cannot fail is worth nothing.  For each
# named field of the expectation the final expectation of a few behaviours is
# perturbed; the driver must then report a difference.  (Guards against
# silently vacuous comparisons - decode mismatches, a class that is never
# asserted, a loop over an empty list.)

def _perturb(v):
    """A value of the same shape that is certainly different."""
    if isinstance(v, bool):
        return not v
    if isinstance(v, int):
        return v + 1
    if isinstance(v, float):
        return v + 1
    if isinstance(v, str):
        return v + "x"
    if isinstance(v, list):
        if not v:
            return [1]
        return [_perturb(v[0])] + v[1:]      # works for sets (membership changes) and for positional arrays
    if isinstance(v, dict):
        if not v:
            return {"perturbed": 1}
        k = sorted(v.keys())[0]
        r = dict(v)
        r[k] = _perturb(v[k])
        return r
    return 1


def _final_exp(tr):
    if isinstance(tr.get("exp"), dict):
        return tr, "exp"
    steps = tr.get("steps") or []
    if steps and isinstance(steps[-1].get("exp"), dict):
        return steps[-1], "exp"
    return None, None


def binding_selftest(scratch, drv, make_args, traces_path, fields, tag="selftest", n=32, where=None):
    """fields: list of expectation fields (or dotted paths) the property's comparison must be sensitive to.
    make_args(infile, outfile) -> driver arguments.  where(trace) -> bool selects usable behaviours.
    Returns {field: number of behaviours in which the perturbation was noticed}; raises Broken if a
    perturbed field goes unnoticed in every behaviour."""
    picked = []
    with open(traces_path) as f:
        for line in f:
            try:
                tr = json.loads(line)
            except ValueError:
                continue
            holder, key = _final_exp(tr)
            names = [f[0] if isinstance(f, tuple) else f for f in fields]
            if (holder is None and not all(f.startswith(("top.", "step.")) for f in names)) or (where and not where(tr)):
                continue
            picked.append(tr)
            if len(picked) >= n:
                break
    if not picked:
        raise Broken("binding self-test: no behaviour with a final expectation in %s" % traces_path)
    out = {}
    for field in fields:
        mut = _perturb
        if isinstance(field, tuple):     # (path, custom mutator)
            field, mut = field
        path = field.split(".")
        inp = scratch.path("%s-%s.ndjson" % (tag, field.replace(".", "_")))
        rep = scratch.path("%s-%s.json" % (tag, field.replace(".", "_")))
        used = 0
        with open(inp, "w") as o:
            for tr in picked:
                t = json.loads(json.dumps(tr))
                if path[0] == "top":
                    node = t
                    path_ = path[1:]
                elif path[0] == "step":
                    # a field of the last step (its prescribed result or an argument the driver asserts on)
                    if not t.get("steps"):
                        continue
                    node = t["steps"][-1]
                    path_ = path[1:]
                else:
                    holder, key = _final_exp(t)
                    node = holder[key]
                    path_ = path
                ok = True
                for p in path_[:-1]:
                    if isinstance(node, dict) and p in node:
                        node = node[p]
                    elif isinstance(node, list) and p.isdigit() and int(p) < len(node):
                        node = node[int(p)]
                    else:
                        ok = False
                        break
                last = path_[-1]
                if ok and isinstance(node, list) and last.isdigit() and int(last) < len(node):
                    node[int(last)] = mut(node[int(last)])
                elif ok and isinstance(node, dict) and last in node:
                    node[last] = mut(node[last])
                else:
                    continue
                o.write(json.dumps(t) + "\n")
                used += 1
        if used == 0:
            raise Broken("binding self-test: no picked behaviour carries the field %r" % field)
        run_driver(drv, make_args(inp, rep), timeout=1800)
        r = load_report(rep)
        noticed = len({m.get("trace") for m in (r.get("mismatches") or [])}) or (1 if r.get("n_mismatch") else 0)
        harness_errs = len(r.get("errors") or [])
        out[field] = {"behaviours": used, "noticed_in": noticed, "harness_errors": harness_errs}
        if noticed == 0 and harness_errs == 0:
            raise Broken("binding self-test: perturbing %r of the expectation in %d behaviours was not noticed by the driver - "
                         "the comparison is vacuous" % (field, used))
    return out
