"""C10: single-write fault enumeration over the operations of the address manager
(spec/AddrMgr.tla behaviours) and of the transaction store (spec/TxStore.tla behaviours)."""
import json, os
import vlib
from checks import addrmgr

PROPS = ["C10"]
TX_EVERY = {"quick": 8, "thorough": 4}
TX_NSIM = {"quick": 100, "thorough": 2000}
WALLET_NSIM = {"quick": 12, "thorough": 120}


def run(prop, tier, seed, scratch, replay=None):
    if replay:
        with open(replay) as f:
            m = json.load(f)
        if m.get("sig", "").startswith("txstore:"):
            from checks import txstore
            return txstore.run(prop, tier, seed, scratch, replay)
        if m.get("sig", "").startswith("spend:"):
            from checks import spend
            return spend.run(prop, tier, seed, scratch, replay)
        return addrmgr.run(prop, tier, seed, scratch, replay)

    # part 1: address manager (writes the evidence skeleton)
    res_code = addrmgr.run(prop, tier, seed, scratch)
    ev_path = os.path.join(vlib.EVID, "C10.json")
    ev1 = json.load(open(ev_path))

    # part 2: transaction store
    res = vlib.Result(prop, tier, seed, "fault_enumeration")
    drv = vlib.build_driver(scratch, "replay-txstore")
    traces = scratch.path("tx-traces.ndjson")
    bfs = vlib.run_tlc(scratch, "TxStore.tla", "MC_TxStore_c10_%s.cfg" % tier, out_traces=traces, tag="txbfs",
                       timeout=3000 if tier == "thorough" else 900)
    vlib.require_tlc_ok(bfs, "TxStore exhaustive exploration")
    graphs = scratch.path("graphs.json")
    with open(graphs, "w") as f:
        f.write(bfs["other"]["GRAPHS"][0])
    sampled = scratch.path("tx-sampled.ndjson")
    vlib.sample_lines(traces, TX_EVERY[tier], sampled, offset=seed)
    simtr = scratch.path("tx-sim.ndjson")
    sim = vlib.run_tlc(scratch, "TxStore.tla", "MC_TxStore_sim.cfg", simulate=TX_NSIM[tier], depth=25, seed=seed,
                       out_traces=simtr, tag="txsim", timeout=1800)
    if sim["errors"]:
        raise vlib.Broken("TxStore simulation failed: %s" % sim["errors"][:3])
    allin = scratch.path("tx-all.ndjson")
    vlib.merge_ndjson(allin, [sampled, simtr])
    report = scratch.path("tx-report.json")
    vlib.run_driver(drv, ["-in", allin, "-graphs", graphs, "-out", report, "-prop", "C10", "-workers", vlib.NCPU], timeout=7200)
    rep = vlib.load_report(report)
    res.add_report(rep)

    # part 3: wallet level - the k-th write of a whole SendOutputs / SendOutputsWithInput (all its database
    # transactions, whichever goroutine of the wallet performs them) fails; spec/Spend.tla walks
    wdrv = vlib.build_driver(scratch, "replay-wallet")
    wtr = scratch.path("w-sim.ndjson")
    wsim = vlib.run_tlc(scratch, "Spend.tla", "MC_Spend_sim.cfg", simulate=WALLET_NSIM[tier], depth=29, seed=seed,
                        out_traces=wtr, tag="wsim", timeout=1800)
    if wsim["errors"]:
        raise vlib.Broken("Spend simulation failed: %s" % wsim["errors"][:3])
    wreport = scratch.path("w-report.json")
    vlib.run_driver(wdrv, ["-in", wtr, "-out", wreport, "-spec", "spend", "-prop", "C10", "-seed", seed, "-workers", vlib.NCPU], timeout=7200)
    wrep = vlib.load_report(wreport)
    res.add_report(wrep)
    if (wrep.get("extra") or {}).get("faults_injected", 0) == 0:
        raise vlib.Broken("wallet-level part injected no fault")
    c1 = ev1["coverage"]
    res.coverage = {
        "evaluations": c1.get("evaluations", 0) + rep["checks"],
        "distinct_nontrivial": c1.get("distinct_nontrivial", 0) + rep["distinct_nontrivial"],
        "rule": "a case = one mutating operation of a replayed behaviour executed with its k-th database write failing (k = 1.. until the "
                "operation completes without reaching k); distinct non-trivial = distinct (operation, write position, kind of failed call"
                "[, graph]) triples. After each injected failure: an error must be reported, and after the rollback the running managers/"
                "store and a shadow restart must answer exactly as the specification's pre-state; the final fault-free run must give the reference result.",
        "samples": (c1.get("samples") or [])[:2] + (rep["samples"] or [])[:2],
        "faults_injected_addrmgr": c1.get("faults_injected", None),
        "faults_injected_txstore": rep["extra"].get("faults_injected", 0),
        "addrmgr_part": {k: c1.get(k) for k in ("states", "transitions", "traces_validated_against_impl", "replayed_steps")},
        "txstore_part": {"states": bfs["distinct"], "transitions": bfs["generated"], "traces_validated_against_impl": rep["traces"],
                         "replayed_steps": rep["steps"]},
        "wallet_part": {"behaviours_replayed": wrep["traces"], "faults_injected": (wrep.get("extra") or {}).get("faults_injected", 0),
                        "fault_free_runs": (wrep.get("extra") or {}).get("fault_free_runs", 0),
                        "operations": "Wallet.SendOutputs / SendOutputsWithInput with a label (coin selection, change address, signing, "
                                      "recording, label, broadcast)"},
        "exhaustive": False,
    }
    res.assumptions = ["fault model: exactly one Put/Delete/CreateBucket/DeleteNestedBucket/cursor Delete/sequence call fails per attempt; reads never fail",
                       "a failing commit is the rolled-back-transaction case decided under C08"]
    # carry over the verdict of part 1
    if ev1.get("violations"):
        res.errors.append("address-manager part reported violations (see its VIOLATION lines above)")
    code2 = res.finish()
    if 1 in (res_code, code2):
        return 1          # a reproduced violation is reported even if another part of the run was unusable
    return 2 if 2 in (res_code, code2) else 0
