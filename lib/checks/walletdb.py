"""C11: spec/WalletDB.tla bound to the walletdb/bdb driver by behaviour replay."""
import json, os
from concurrent.futures import ThreadPoolExecutor
import vlib

PROPS = ["C11"]
LEVEL = "model_checking"

CFG = {
    # tier: (exhaustive cfg, simulated walks (-simulate num=), tlc time-out)
    "quick": ("MC_WalletDB_quick.cfg", 60, 300),
    "thorough": ("MC_WalletDB_thorough.cfg", 1200, 1800),
}
SIM_CFG = "MC_WalletDB_sim.cfg"
SIM_DEPTH = 41          # MaxHist = 40 steps

# every public operation of the interface is an action of the specification; the
# thorough tier treats one that TLC never took as a broken check
ACTIONS = ["BeginW", "Commit", "Rollback", "UpdateEnd", "BeginR", "RollbackR", "ViewEnd", "Reopen",
           "PutAny", "DeleteAny", "CreateAny", "CreateIfNotExistsAny", "DeleteBucketAny",
           "NextSeqAny", "SetSeqAny", "GetAny", "LookupAny", "SequenceAny", "ForEachAny",
           "FirstAny", "LastAny", "SeekAny", "CMove", "CDelete"]

# bbolt maps the file into the address space of the process and the drivers of
# one process contend for that address space: several processes scale better
NPROC = 4


def _split(path, n, prefix):
    outs = [open("%s.%d" % (prefix, i), "w") for i in range(n)]
    k = 0
    with open(path) as f:
        for line in f:
            outs[k % n].write(line)
            k += 1
    for o in outs:
        o.close()
    return ["%s.%d" % (prefix, i) for i in range(n)], k


def _replay(drv, scratch, jobs):
    """jobs: list of ndjson files.  Runs one driver process per file and merges the reports."""
    workers = max(2, vlib.NCPU // max(1, len(jobs)))

    def one(i_job):
        i, path = i_job
        rep, keys = scratch.path("report.%d.json" % i), scratch.path("keys.%d.txt" % i)
        vlib.run_driver(drv, ["-in", path, "-out", rep, "-keys", keys, "-workers", workers], timeout=7200)
        return vlib.load_report(rep), keys

    with ThreadPoolExecutor(max_workers=len(jobs)) as ex:
        results = list(ex.map(one, enumerate(jobs)))
    merged = {"traces": 0, "steps": 0, "checks": 0, "mismatches": [], "errors": [], "samples": [], "extra": {}, "rule": ""}
    allkeys = set()
    for rep, keys in results:
        for k in ("traces", "steps", "checks"):
            merged[k] += rep[k]
        merged["mismatches"] += rep.get("mismatches") or []
        merged["errors"] += rep.get("errors") or []
        merged["samples"] += (rep.get("samples") or [])[:2]
        merged["rule"] = rep["rule"]
        for k, v in (rep.get("extra") or {}).items():
            merged["extra"][k] = merged["extra"].get(k, 0) + v
        with open(keys) as f:
            allkeys.update(l.strip() for l in f if l.strip())
    merged["distinct_nontrivial"] = len(allkeys)
    merged["samples"] = merged["samples"][:4]
    return merged


def run(prop, tier, seed, scratch, replay=None):
    res = vlib.Result(prop, tier, seed, LEVEL)
    drv = vlib.build_driver(scratch, "replay-walletdb")

    if replay:
        with open(replay) as f:
            m = json.load(f)
        traces = scratch.path("replay.ndjson")
        with open(traces, "w") as f:
            f.write(json.dumps(m["behaviour"]) + "\n")
        rep = _replay(drv, scratch, [traces])
        res.add_report(rep)
        res.write_evidence = False
        res.coverage = {"states": 1, "transitions": 1, "traces_validated_against_impl": rep["traces"],
                        "samples": rep["samples"] or ["replay"], "replay_of": replay}
        return res.finish()

    cfg, nsim, tmo = CFG[tier]
    bfstr = scratch.path("bfs.ndjson")
    bfs = vlib.run_tlc(scratch, "WalletDB.tla", cfg, out_traces=bfstr, tag="bfs", timeout=tmo,
                       coverage=(tier == "thorough"))
    vlib.require_tlc_ok(bfs, "exhaustive exploration of spec/WalletDB.tla")
    if tier == "thorough":
        never = [a for a in ACTIONS if bfs["coverage"].get(a, 0) == 0]
        if never:
            raise vlib.Broken("actions never taken in the exhaustive run: %s" % never)
    simtr = scratch.path("sim.ndjson")
    sim = vlib.run_tlc(scratch, "WalletDB.tla", SIM_CFG, simulate=nsim, depth=SIM_DEPTH, seed=seed,
                       out_traces=simtr, tag="sim", timeout=tmo)
    if sim["errors"] or sim["ntraces"] == 0:
        raise vlib.Broken("simulation run failed: %s\n%s" % (sim["errors"][:3], "\n".join(sim["tail"][-10:])))

    allin = scratch.path("all.ndjson")
    vlib.merge_ndjson(allin, [simtr, bfstr])
    shards, n = _split(allin, NPROC, scratch.path("shard"))
    if n != bfs["ntraces"] + sim["ntraces"]:
        raise vlib.Broken("lost behaviours while sharding: %d of %d" % (n, bfs["ntraces"] + sim["ntraces"]))
    rep = _replay(drv, scratch, shards)
    res.add_report(rep)
    if rep["traces"] != bfs["ntraces"] + sim["ntraces"]:
        res.errors.append("driver replayed %d of %d behaviours" % (rep["traces"], bfs["ntraces"] + sim["ntraces"]))
    # binding self-test: the prescribed result class of the last step and the expected content, altered, must be noticed
    st = vlib.binding_selftest(scratch, drv, lambda i, o: ["-in", i, "-out", o, "-keys", scratch.path("st-keys.txt"), "-workers", 4],
                               bfstr, ["step.ret.c", "disk"], where=lambda tr: len(tr.get("steps") or []) >= 3)
    res.coverage = {
        "binding_selftest": st,
        "states": bfs["distinct"], "transitions": bfs["generated"],
        "traces_validated_against_impl": rep["traces"],
        "evaluations": rep["checks"], "distinct_nontrivial": rep["distinct_nontrivial"],
        "rule": rep["rule"], "samples": rep["samples"],
        "exhaustive": True,
        "explanation": "TLC explored spec/WalletDB.tla exhaustively under %s (depth %d) checking Inv and the action properties "
                       "Atomicity, Visibility, ReadYourWrites, Isolation, ReadOnlyRejects, ErrorsChangeNothing, CursorOrder, Namespaces; "
                       "every transition of that state graph was emitted with the shortest history reaching it and replayed on the real "
                       "bdb driver in a fresh database file: the value / error class of every step, the ErrTxClosed answers of finished "
                       "transactions, a following write transaction after every end of the writer, and after the last step the complete "
                       "content seen by a fresh read transaction and by every open transaction were compared with the specification. "
                       "%d additional random walks of 40 steps (seed %d, larger key / value sets, two top-level buckets, up to 8 write "
                       "transactions) were replayed with the complete comparison after every step."
                       % (cfg, bfs["depth"], sim["ntraces"], seed),
        "replayed_steps": rep["steps"], "simulated_behaviours": sim["ntraces"],
        "answers_where_only_refusal_is_required": rep["extra"],
        "tlc_bfs_wall_s": bfs["wall_s"], "tlc_sim_wall_s": sim["wall_s"], "checker_cmd": bfs["cmd"],
    }
    if tier == "thorough":
        res.coverage["tlc_action_coverage"] = {a: bfs["coverage"].get(a, 0) for a in ACTIONS}
    res.assumptions = [
        "keys and values are short byte strings from a fixed set (prefixes of each other, 0x00, 0xff, the empty string); buckets nest two deep; "
        "databases stay tiny (one leaf page per bucket)",
        "a second writer is never begun while one is open (bbolt would block); read transactions run concurrently with the writer in one goroutine",
        "left out because the interface does not fix the outcome: moving a cursor after a mutation of its own transaction, incl. after "
        "cursor.Delete (bbolt issue 620); Put with a nil value; the identity of the error of NextSequence/SetSequence in a read-only "
        "transaction and of DeleteNestedBucket(empty name) on a bucket without entries (any error is accepted, no change is required)",
        "the file is grown and emptied once before a behaviour with read transactions starts, so that no commit has to remap the file while a reader is open",
    ]
    return res.finish()
