"""C18: spec/Queue.tla (PlusCal) model-checked by TLC + recorded runs of the real
chain.ConcurrentQueue validated against it by spec/QueueTrace.tla."""
import json, os, concurrent.futures
import vlib

PROPS = ["C18"]
LEVEL = "model_checking"

TIERS = {
    # tier: (cfg without consumer fairness, cfg with it, recorded runs, TLC chunks)
    "quick": ("MC_Queue_quick.cfg", "MC_Queue_quick_fair.cfg", 200, 4),
    "thorough": ("MC_Queue_thorough.cfg", "MC_Queue_thorough_fair.cfg", 5000, 16),
}

# deliberately broken variants of the specification: TLC must reject each, with this message
BROKEN = [
    ("MC_Queue_broken_popback.cfg", ("Invariant InOrder is violated", "Invariant Conservation is violated")),
    ("MC_Queue_broken_weakhandoff.cfg", ("Invariant HandoffOnlyWhenEmpty is violated", "Invariant InOrder is violated",
                                         "Invariant Conservation is violated")),
    ("MC_Queue_broken_drop.cfg", ("Invariant Conservation is violated",)),
    ("MC_Queue_broken_nodefault.cfg", ("Temporal property ProducerCompletes was violated",)),
    ("MC_Queue_broken_noquit.cfg", ("Temporal property StopTerminates was violated",)),
    ("MC_Queue_broken_slowconsumer.cfg", ("Temporal property AllDelivered was violated",)),
]
ACTIONS = ["P", "PW", "W", "W2", "C", "CT", "S"]
EVENT_KINDS = ["in", "handoff", "push", "enq", "out", "quit", "exit"]
MAX_REJECTS_PER_CHUNK = 5


# --------------------------------------------------------------------------
# recorded runs <-> TLC

def split_runs(path):
    """The driver's ndjson -> list of runs, each a list of parsed lines (reset .. end)."""
    runs, cur = [], None
    with open(path) as f:
        for line in f:
            line = line.strip()
            if not line:
                continue
            d = json.loads(line)
            if d["ev"] == "reset":
                cur = [d]
                runs.append(cur)
            elif cur is not None:
                cur.append(d)
    return runs


def validate(scratch, runs, tag):
    """One TLC invocation of QueueTrace.tla over the concatenation of `runs`.
    Returns (tlc result, None) if every run is accepted, else (result, rejection) where
    rejection = {"pos": index into runs, "line": line inside the run, "ev": the unmatched line}."""
    d = scratch.path("in-" + tag)
    os.makedirs(d, exist_ok=True)
    tf = os.path.join(d, "trace.ndjson")
    starts = []
    n = 0
    with open(tf, "w") as f:
        for r in runs:
            starts.append(n)
            for l in r:
                f.write(json.dumps(l) + "\n")
                n += 1
    r = vlib.run_tlc(scratch, "QueueTrace.tla", "MC_QueueTrace.cfg", workers=1, tag=tag,
                     extra_files=[tf], timeout=1500, heap="2g")
    if r["ok"]:
        return r, None
    case = r["other"].get("CASE")
    post = [e for e in r["errors"] if "Postcondition TraceAccepted" in e]
    other = [e for e in r["errors"] if "Postcondition TraceAccepted" not in e]
    if not case or not post or other:
        raise vlib.Broken("trace validation (%s): TLC failed without a localised rejection: %s\n%s"
                          % (tag, r["errors"][:5], "\n".join(r["tail"][-25:])))
    c = json.loads(case[0])
    line = c["line"] - 1                       # 0-based index of the first unmatched line
    pos = max(i for i, s in enumerate(starts) if s <= line)
    return r, {"pos": pos, "line": line - starts[pos], "ev": c["ev"]}


def validate_chunk(scratch, runs, tag):
    """Validates a chunk; a rejected run is re-validated alone (the rejection must reproduce),
    reported, removed, and the rest is validated again."""
    accepted, rejected, states, gen = 0, [], 0, 0
    todo = list(runs)
    k = 0
    while todo:
        r, rej = validate(scratch, todo, "%s-%d" % (tag, k))
        states += r["distinct"]
        gen += r["generated"]
        k += 1
        if rej is None:
            accepted += len(todo)
            break
        bad = todo[rej["pos"]]
        r1, rej1 = validate(scratch, [bad], "%s-%d-alone" % (tag, k))
        if rej1 is None:
            raise vlib.Broken("run %s is rejected inside a concatenation but accepted alone: the trace-validation machinery is inconsistent"
                              % bad[0].get("run"))
        rejected.append((bad, rej1))
        accepted += rej["pos"]
        todo = todo[rej["pos"] + 1:]
        if len(rejected) >= MAX_REJECTS_PER_CHUNK:
            break
    return {"accepted": accepted, "rejected": rejected, "states": states, "generated": gen, "unvalidated": len(todo) if rejected and len(rejected) >= MAX_REJECTS_PER_CHUNK else 0}


def rejection_mismatch(prop, bad, rej):
    hdr = bad[0]
    scn = hdr.get("scn", {})
    ev = rej["ev"]
    what = ("recorded run %s (%s, B=%s, n=%s) of the real ConcurrentQueue is not a behaviour of spec/Queue.tla: "
            "worker events 1..%d are matched, line %d of the run = %s cannot be matched by any interleaving of producer, consumer and Stop"
            % (hdr.get("run"), scn.get("name"), hdr.get("B"), hdr.get("n"), max(rej["line"] - 1, 0), rej["line"], json.dumps(ev)))
    return {"prop": prop, "sig": "trace-queue:rejected:%s:%s" % (scn.get("name"), ev.get("ev")),
            "trace": hdr.get("run"), "step": rej["line"], "what": what,
            "observed": ev, "expected": "a step of Queue.tla's worker (W/W2) with this item and overflow length, or the recorded end-of-run facts",
            "behaviour": {"kind": "trace", "scenario": scn, "lines": bad, "first_unmatched_line": rej["line"]}}


def validate_all(scratch, res, runs, nchunks, tag="tv"):
    """Splits the runs over parallel TLC processes (-workers 1 each). Returns statistics."""
    nchunks = max(1, min(nchunks, len(runs)))
    size = (len(runs) + nchunks - 1) // nchunks
    chunks = [runs[i:i + size] for i in range(0, len(runs), size)]
    out = {"accepted": 0, "rejected": 0, "states": 0, "generated": 0, "tlc_invocations": 0}
    with concurrent.futures.ThreadPoolExecutor(max_workers=min(len(chunks), vlib.NCPU)) as ex:
        futs = [ex.submit(validate_chunk, scratch, c, "%s%d" % (tag, i)) for i, c in enumerate(chunks)]
        for f in futs:
            r = f.result()
            out["accepted"] += r["accepted"]
            out["states"] += r["states"]
            out["generated"] += r["generated"]
            out["tlc_invocations"] += 1
            for bad, rej in r["rejected"]:
                out["rejected"] += 1
                res.mismatches.append(rejection_mismatch(res.prop, bad, rej))
            if r["unvalidated"]:
                vlib.log("%d runs of a chunk left unvalidated after %d rejections" % (r["unvalidated"], MAX_REJECTS_PER_CHUNK))
    return out


def binding_demo(scratch, runs):
    """Corrupts recorded runs the way a wrong implementation / a missing hook would look and
    requires QueueTrace.tla to reject them at exactly that event."""
    done = {}
    # (a) two consecutive "out" events with their items swapped = overflow not drained in FIFO order
    for r in runs:
        idx = [i for i in range(1, len(r) - 1) if r[i]["ev"] == "out" and r[i + 1]["ev"] == "out" and r[i]["item"] != r[i + 1]["item"]]
        if idx and len(r) < 80:
            i = idx[0]
            bad = [dict(l) for l in r]
            bad[i]["item"], bad[i + 1]["item"] = bad[i + 1]["item"], bad[i]["item"]
            _, rej = validate(scratch, [bad], "bind-swap")
            if rej is None or rej["line"] != i:
                raise vlib.Broken("binding self-test: swapping the items of two out events of run %s was not rejected at that event (%s)"
                                  % (r[0].get("run"), rej))
            done["swapped_out_items_rejected_at_line"] = i
            break
    # (b) one "push" event deleted = a hook removed / an item that silently skipped the overflow list
    for r in runs:
        idx = [i for i in range(1, len(r) - 2) if r[i]["ev"] == "push" and r[i + 1]["ev"] in ("enq", "out")]
        if idx and len(r) < 80:
            i = idx[0]
            bad = [dict(l) for j, l in enumerate(r) if j != i]
            _, rej = validate(scratch, [bad], "bind-drop")
            if rej is None or rej["line"] != i:
                raise vlib.Broken("binding self-test: deleting the push event of run %s was not rejected at the following event (%s)"
                                  % (r[0].get("run"), rej))
            done["deleted_push_event_rejected_at_line"] = i
            break
    # (c) a received list with two items exchanged = the consumer saw another order than the worker produced
    for r in runs:
        recv = r[0].get("recv", [])
        if len(recv) >= 2 and len(r) < 80:
            bad = [dict(l) for l in r]
            bad[0]["recv"] = [recv[1], recv[0]] + recv[2:]
            _, rej = validate(scratch, [bad], "bind-recv")
            if rej is None:
                raise vlib.Broken("binding self-test: a reordered received list of run %s was accepted" % r[0].get("run"))
            done["reordered_received_list_rejected_at_line"] = rej["line"]
            break
    if len(done) < 3:
        raise vlib.Broken("binding self-test: the recorded runs offered no run to corrupt (%s)" % done)
    return done


# --------------------------------------------------------------------------

def model_check(scratch, tier, res_cov):
    slow_cfg, fair_cfg, _, _ = TIERS[tier]
    thorough = tier == "thorough"
    slow = vlib.run_tlc(scratch, "Queue.tla", slow_cfg, tag="mc-slow", timeout=900, coverage=thorough)
    vlib.require_tlc_ok(slow, "Queue.tla safety + liveness without consumer fairness (%s)" % slow_cfg)
    fair = vlib.run_tlc(scratch, "Queue.tla", fair_cfg, tag="mc-fair", timeout=900)
    vlib.require_tlc_ok(fair, "Queue.tla with consumer fairness (%s)" % fair_cfg)
    if thorough:
        missing = [a for a in ACTIONS if slow["coverage"].get(a, 0) == 0]
        if missing:
            raise vlib.Broken("actions never taken in the exhaustive run: %s" % missing)
        res_cov["action_coverage"] = {a: slow["coverage"][a] for a in ACTIONS}
    broken = {}
    for cfg, expect in (BROKEN if thorough else BROKEN[:1]):
        b = vlib.run_tlc(scratch, "Queue.tla", cfg, tag="mc-" + cfg[:-4], timeout=600)
        hit = [e for e in b["errors"] if any(x in e for x in expect)]
        if b["ok"] or not hit:
            raise vlib.Broken("non-vacuity: the broken variant %s was NOT rejected by TLC with %s (errors: %s)" % (cfg, expect, b["errors"][:3]))
        broken[cfg] = hit[0].replace("Error: ", "")
    res_cov["broken_variants_rejected"] = broken
    return slow, fair


def finish_with_runs(scratch, res, rep, runs, nchunks):
    """Direct assertions are in rep; validate the recorded runs; returns stats."""
    res.add_report(rep)
    if not runs:
        return {"accepted": 0, "rejected": 0, "states": 0, "generated": 0, "tlc_invocations": 0}
    return validate_all(scratch, res, runs, nchunks)


def run(prop, tier, seed, scratch, replay=None):
    res = vlib.Result(prop, tier, seed, LEVEL)
    drv = vlib.build_driver(scratch, "trace-queue")
    traces = scratch.path("runs.ndjson")
    report = scratch.path("report.json")

    if replay:
        with open(replay) as f:
            m = json.load(f)
        beh = m.get("behaviour") or {}
        stored = beh.get("lines") or []
        info = {"replay_of": replay}
        # (1) a stored recorded run is re-validated as it is (deterministic)
        if beh.get("kind") == "trace" and stored:
            _, rej = validate(scratch, [stored], "replay-stored")
            info["stored_trace"] = "rejected at line %d" % rej["line"] if rej else "accepted"
            vlib.log("stored trace: %s" % info["stored_trace"])
            if rej:
                res.mismatches.append(rejection_mismatch(prop, stored, rej))
        # (2) its scenario is run again on the current tree
        scn = beh.get("scenario")
        nrun = 0
        if scn and scn.get("name") == "nonblocking-10k":
            vlib.run_driver(drv, ["-seed", seed, "-runs", 0, "-multi", 0, "-out", traces, "-out-report", report], timeout=600)
            rep = vlib.load_report(report)
            res.add_report(rep)
        elif scn and scn.get("name") != "multi-producer":
            vlib.run_driver(drv, ["-seed", seed, "-runs", 300, "-scenario", json.dumps(scn), "-out", traces, "-out-report", report], timeout=900)
            rep = vlib.load_report(report)
            runs = split_runs(traces)
            st = finish_with_runs(scratch, res, rep, runs, 4)
            nrun = st["accepted"]
            info["rerun"] = {"runs": len(runs), "accepted": st["accepted"], "rejected": st["rejected"], "direct_mismatches": rep["n_mismatch"]}
            vlib.log("scenario re-run on the current tree: %s" % info["rerun"])
        res.write_evidence = False
        res.coverage = dict(info, states=1, transitions=1, traces_validated_against_impl=nrun, samples=["replay"])
        return res.finish()

    _, _, nruns, nchunks = TIERS[tier]
    cov = {}
    slow, fair = model_check(scratch, tier, cov)

    # record runs of the real queue (direct assertions are made by the driver)
    vlib.run_driver(drv, ["-seed", seed, "-runs", nruns, "-out", traces, "-out-report", report,
                          "-workers", vlib.NCPU], timeout=1500)
    rep = vlib.load_report(report)
    runs = split_runs(traces)
    kinds = {}
    inner_quit = 0
    for r in runs:
        for l in r[1:-1]:
            kinds[l["ev"]] = kinds.get(l["ev"], 0) + 1
            if l["ev"] == "quit" and l.get("item"):
                inner_quit += 1
    st = finish_with_runs(scratch, res, rep, runs, nchunks)
    clean = not res.mismatches
    if clean:
        if rep["traces"] != nruns or len(runs) != nruns:
            res.errors.append("driver recorded %d of %d runs" % (len(runs), nruns))
        miss = [k for k in EVENT_KINDS if not kinds.get(k)]
        if miss:
            raise vlib.Broken("the recorded runs never produced the worker events %s" % miss)
        if st["accepted"] != len(runs):
            res.errors.append("only %d of %d recorded runs were validated" % (st["accepted"], len(runs)))
        cov["binding_self_test"] = binding_demo(scratch, runs)

    nevents = sum(len(r) - 2 for r in runs)
    res.coverage = dict(cov, **{
        "states": slow["distinct"], "transitions": slow["generated"],
        "traces_validated_against_impl": st["accepted"],
        "evaluations": rep["checks"] + nevents,
        "distinct_nontrivial": rep["distinct_nontrivial"], "rule": rep["rule"],
        "samples": rep["samples"],
        "exhaustive": True,
        "explanation": "TLC explored spec/Queue.tla (producer, the Start loop's worker, consumer, Stop; all buffer sizes of the cfg) exhaustively "
                       "under %s (depth %d): invariants InOrder, Conservation, HandoffOnlyWhenEmpty, action property NoOvertake, and under weak fairness of "
                       "worker and producer only (consumer may stall for ever) ProducerCompletes and StopTerminates; under %s additionally AllDelivered. "
                       "%d runs of the real chain.ConcurrentQueue (seed %d; buffer sizes 0..3, bursts longer than the buffer, consumer fast/slow/late/absent, "
                       "Stop mid-stream) were recorded through the verif hook and each was accepted by spec/QueueTrace.tla as a behaviour of Queue.tla "
                       "(%d worker events matched in order, consumer/producer facts at the end of each run); the driver also asserted received == sent, "
                       "10^4 sends with no consumer per buffer size, and exit after Stop."
                       % (TIERS[tier][0], slow["depth"], TIERS[tier][1], st["accepted"], seed, nevents),
        "liveness": {"without_consumer_fairness": {"cfg": TIERS[tier][0], "properties": ["ProducerCompletes", "StopTerminates"], "states": slow["distinct"]},
                     "with_consumer_fairness": {"cfg": TIERS[tier][1], "properties": ["AllDelivered"], "states": fair["distinct"]}},
        "recorded_events": nevents, "worker_events_by_kind": kinds, "quit_in_inner_select": inner_quit,
        "recorded_runs_with_overflow": rep["extra"].get("runs_with_overflow", 0),
        "scenarios": {k[len("scenario_"):]: v for k, v in rep["extra"].items() if k.startswith("scenario_")},
        "runs_rejected": st["rejected"],
        "trace_validation_states": st["states"], "trace_validation_tlc_invocations": st["tlc_invocations"],
        "tlc_wall_s": {"slow": slow["wall_s"], "fair": fair["wall_s"]}, "checker_cmd": slow["cmd"],
    })
    res.assumptions = [
        "Go channel semantics as modelled in spec/Queue.tla: a select case is ready iff its channel operation can proceed at once, one ready case is chosen nondeterministically, default only if none is ready",
        "one producer goroutine in the specification and in the recorded runs (several producers are covered by a direct per-producer-order assertion only)",
        "liveness is checked under weak fairness of the worker and the producer; Go's scheduler and its uniformly random select are assumed to provide that",
    ]
    return res.finish()
