"""C07: spec/Author.tla (size rules, fee/dust rules, the fix-point loop of NewUnsignedTransaction) model-checked on small
coin multisets; its case space is replayed on the real txauthor/txsizes/txrules, signed with real keys and measured."""
import json, os, re
from concurrent.futures import ThreadPoolExecutor
import vlib

PROPS = ["C07"]
LEVEL = "model_checking"

MODEL = {"quick": "MC_Author_small.cfg", "thorough": "MC_Author_smallT.cfg"}
FAMILIES = {
    "quick": ["MC_Author_mix_quick.cfg", "MC_Author_outs_quick.cfg", "MC_Author_order_quick.cfg", "MC_Author_many_quick.cfg"],
    "thorough": ["MC_Author_mix3_thorough.cfg", "MC_Author_outsT_thorough.cfg", "MC_Author_order3_thorough.cfg",
                 "MC_Author_many_quick.cfg", "MC_Author_wide_thorough.cfg", "MC_Author_f12_thorough.cfg",
                 "MC_Author_random_thorough.cfg"],
}

ASSUMPTIONS = [
    "the input source hands out the offered coins in the given order until the requested total is reached (the contract of wallet.makeInputSource)",
    "'the rate applied to a size' is the relay-fee rule rate*size/1000 in integers (txrules.FeeForSerializeSize); the driver counts the cases in which "
    "the fee is below the exact product by less than one satoshi (fee_below_exact_rate_times_vsize_by_integer_rounding) but does not report them",
    "the worst-case estimate of the specification charges the witness section the way the implementation does (2 + CompactSize(#witness inputs) + stacks, "
    "quirk Q1 of spec/Author.tla); TLC checks that this never falls below the largest size a transaction signed with compressed keys, low-S ECDSA and "
    "SIGHASH_DEFAULT Schnorr signatures can have",
    "signed sizes are measured on the code (btcd mempool.GetTxVirtualSize) after every input was verified with txscript.NewEngine(StandardVerifyFlags); "
    "keys are derived from VERIF_SEED, so signature lengths vary with the seed",
    "coins spent through an uncompressed key (candidate F12) are exercised in the thorough tier only",
]


def _tlc(scratch, cfg, traces, tier, workers):
    tag = cfg[len("MC_Author_"):-len(".cfg")]
    r = vlib.run_tlc(scratch, "Author.tla", cfg, out_traces=traces, tag=tag, workers=workers,
                     timeout=2400 if tier == "thorough" else 400, coverage=(tier == "thorough"))
    return cfg, r


def run(prop, tier, seed, scratch, replay=None):
    res = vlib.Result(prop, tier, seed, LEVEL)
    drv = vlib.build_driver(scratch, "replay-author")
    cases = scratch.path("cases.ndjson")
    report = scratch.path("report.json")

    if replay:
        with open(replay) as f:
            m = json.load(f)
        with open(cases, "w") as f:
            f.write(json.dumps(m["behaviour"]) + "\n")
        vlib.run_driver(drv, ["-in", cases, "-out", report, "-workers", 1, "-seed", seed])
        rep = vlib.load_report(report)
        res.add_report(rep)
        res.write_evidence = False
        res.coverage = {"states": 1, "transitions": 1, "traces_validated_against_impl": rep["traces"],
                        "samples": rep["samples"] or ["replay"], "replay_of": replay}
        return res.finish()

    os.environ["VERIF_SEED"] = str(seed)     # read by Author.tla (IOEnv) for the random family
    jobs = [(MODEL[tier], None)] + [(c, scratch.path("cases-%d.ndjson" % i)) for i, c in enumerate(FAMILIES[tier])]
    if tier == "thorough":
        jobs.append(("MC_Author_strict.cfg", None))
    per = max(2, vlib.NCPU // 4)
    with ThreadPoolExecutor(max_workers=4) as ex:
        results = list(ex.map(lambda j: _tlc(scratch, j[0], j[1], tier, per), jobs))

    states = transitions = ncases = 0
    per_cfg, cmds = {}, []
    strict = None
    for cfg, r in results:
        if cfg == "MC_Author_strict.cfg":
            strict = any("InsufficientOnlyIfStrict" in e for e in r["errors"])
            continue
        vlib.require_tlc_ok(r, "TLC " + cfg)
        if tier == "thorough" and r["coverage"].get("Loop", 0) == 0:
            raise vlib.Broken("%s: action Loop never taken" % cfg)
        states += r["distinct"]
        transitions += r["generated"]
        ncases += r["ntraces"]
        per_cfg[cfg] = {"states": r["distinct"], "transitions": r["generated"], "cases": r["ntraces"], "depth": r["depth"],
                        "wall_s": r["wall_s"]}
        cmds.append(r["cmd"])
    vlib.merge_ndjson(cases, [t for _, t in jobs if t])
    vlib.run_driver(drv, ["-in", cases, "-out", report, "-workers", vlib.NCPU, "-seed", seed], timeout=3000)
    rep = vlib.load_report(report)
    res.add_report(rep)
    if rep["traces"] != ncases:
        res.errors.append("driver replayed %d of %d cases" % (rep["traces"], ncases))
    st = vlib.binding_selftest(scratch, drv, lambda i, o: ["-in", i, "-out", o, "-workers", 4, "-seed", seed], cases, ["fee", "change", "nin", ("res", lambda v: "insufficient")],
                               where=lambda c: (c.get("exp") or {}).get("res") == "ok")
    res.coverage = {
        "binding_selftest": st,
        "states": states, "transitions": transitions,
        "traces_validated_against_impl": rep["traces"],
        "evaluations": rep["checks"], "distinct_nontrivial": rep["distinct_nontrivial"],
        "rule": rep["rule"], "samples": rep["samples"],
        "exhaustive": True,
        "explanation": "TLC checked spec/Author.tla under %s: for every sequence of up to three coins (four input types, several values), output list, "
                       "change type and rate of the small family the loop terminates (liveness under weak fairness) and its outcome satisfies conservation, "
                       "no dust/zero change, rate*estimate/1000 <= fee <= rate*estimate/1000 + dust threshold, estimate >= largest signed size, and the "
                       "insufficient-funds condition. The case families %s were enumerated by TLC with the predicted outcome (success/insufficient, inputs "
                       "consumed, fee, change, estimate) and each case was run through the real txauthor.NewUnsignedTransaction; the prediction must match, "
                       "the transaction is then signed with real keys (AddAllInputScripts), every input verified with the script engine, the real virtual "
                       "size measured and the property's sentences checked against it."
                       % (MODEL[tier], ", ".join(FAMILIES[tier])),
        "per_config": per_cfg, "driver_counters": rep.get("extra", {}),
        "checker_cmd": " ; ".join(cmds),
    }
    if strict is not None:
        res.coverage["strict_insufficient_reading_refuted_on_model"] = strict
    res.assumptions = ASSUMPTIONS
    return res.finish()
