"""C14: spec/KahnSort.tla (PlusCal transcription of wtxmgr/kahnsort.go, map order nondeterministic)
model-checked for every small DAG; every transaction set is realised as wire.MsgTx values and the real
DependencySort / Store.UnminedTxs must return one of the orders the specification admits."""
import json
from concurrent.futures import ThreadPoolExecutor
import vlib

LEVEL = "model_checking"
PROPS = ["C14"]

CFG = {"quick": "MC_KahnSort_quick.cfg", "thorough": "MC_KahnSort_thorough.cfg"}
ACTIONS = ("makeGraph", "graphRoots", "shortcut", "kahn")
# btcd serialises transactions through one process-wide buffer free list (a channel), which caps the
# useful parallelism of one driver process at about four goroutines: run several processes instead
SHARDS = 4
WORKERS_PER_SHARD = 4


def run_sharded(drv, scratch, cases, seed):
    """Split the cases round-robin over SHARDS driver processes and add up their reports."""
    ins = [scratch.path("cases-%d.ndjson" % k) for k in range(SHARDS)]
    outs = [scratch.path("report-%d.json" % k) for k in range(SHARDS)]
    fs = [open(p, "w") for p in ins]
    with open(cases) as f:
        for i, line in enumerate(f):
            fs[i % SHARDS].write(line)
    for f in fs:
        f.close()
    with ThreadPoolExecutor(SHARDS) as ex:
        jobs = [ex.submit(vlib.run_driver, drv, ["-in", ins[k], "-out", outs[k], "-workers", WORKERS_PER_SHARD,
                                                  "-seed", seed * 10 + k], 3000) for k in range(SHARDS)]
        for j in jobs:
            j.result()
    tot = None
    for o in outs:
        r = vlib.load_report(o)
        if tot is None:
            tot = r
            for k in ("mismatches", "errors", "samples"):
                tot[k] = tot[k] or []
            continue
        for k in ("traces", "steps", "checks", "distinct_nontrivial", "n_mismatch"):   # shards hold disjoint sets
            tot[k] += r[k]
        for k in ("mismatches", "errors", "samples"):
            tot[k] += r[k] or []
        for k, v in (r["extra"] or {}).items():
            tot["extra"][k] = tot["extra"].get(k, 0) + v
    tot["samples"] = tot["samples"][:3]
    return tot


def run(prop, tier, seed, scratch, replay=None):
    res = vlib.Result(prop, tier, seed, LEVEL)
    drv = vlib.build_driver(scratch, "replay-kahn")
    cases = scratch.path("cases.ndjson")
    report = scratch.path("report.json")

    if replay:
        with open(replay) as f:
            m = json.load(f)
        with open(cases, "w") as f:
            f.write(json.dumps(m["behaviour"]) + "\n")
        vlib.run_driver(drv, ["-in", cases, "-out", report, "-workers", 1, "-seed", seed, "-reps", 500,
                              "-store-orders", 6, "-store-reps", 50])
        rep = vlib.load_report(report)
        res.add_report(rep)
        res.write_evidence = False
        res.coverage = {"states": 1, "transitions": 1, "traces_validated_against_impl": rep["traces"],
                        "samples": rep["samples"] or [m["behaviour"]], "replay_of": replay}
        return res.finish()

    cfg = CFG[tier]
    thorough = tier == "thorough"
    bfs = vlib.run_tlc(scratch, "KahnSort.tla", cfg, out_traces=cases, tag="bfs",
                       timeout=2400 if thorough else 300, coverage=thorough, heap="24g" if thorough else None)
    vlib.require_tlc_ok(bfs, "exhaustive exploration of the sort over all map orders")
    if bfs["ntraces"] == 0:
        raise vlib.Broken("TLC exported no transaction set")
    if thorough:
        dead = [a for a in bfs["coverage_zero"] if a in ACTIONS]
        if dead:
            raise vlib.Broken("actions never taken in the exhaustive run: %s" % dead)
    rep = run_sharded(drv, scratch, cases, seed)
    res.add_report(rep)
    if rep["traces"] != bfs["ntraces"]:
        res.errors.append("driver ran %d of %d transaction sets" % (rep["traces"], bfs["ntraces"]))
    # binding self-test: with the set of valid orders altered, the real sort's answer must be reported
    st = vlib.binding_selftest(scratch, drv, lambda i, o: ["-in", i, "-out", o, "-workers", 4, "-seed", seed, "-reps", 20,
                                                           "-store-orders", 1, "-store-reps", 2],
                               cases, [("top.valid", lambda v: [list(reversed(v[0]))])], where=lambda c: c.get("nvalid") == 1 and c.get("n", 0) >= 2)
    res.coverage = {
        "binding_selftest": st,
        "states": bfs["distinct"], "transitions": bfs["generated"],
        "traces_validated_against_impl": rep["traces"],
        "evaluations": rep["checks"], "distinct_nontrivial": rep["distinct_nontrivial"],
        "rule": rep["rule"], "samples": rep["samples"],
        "exhaustive": True,
        "explanation": "TLC explored spec/KahnSort.tla under %s (depth %d): from every transaction set of the family every iteration "
                       "order of makeGraph's and graphRoots' map ranges; invariant: at termination every transaction exactly once, each "
                       "after all in-set parents; termination by deadlock freedom + strictly decreasing measure%s. Each set was printed "
                       "with its ValidOrders, built as real transactions (inputs spend the parents' real hashes and foreign outpoints) and "
                       "sorted by the real DependencySort 50 times over freshly filled maps and by Store.UnminedTxs 10 times for each of 2 "
                       "random insertion orders into a fresh store (seed %d); every returned list must be a member of ValidOrders."
                       % (cfg, bfs["depth"], "" if thorough else " and the temporal property Termination under weak fairness", seed),
        "transaction_sets": bfs["ntraces"],
        "sets_with_edges": rep["extra"].get("sets_with_edges", 0),
        "valid_orders_of_all_sets": rep["extra"].get("valid_orders_of_all_sets", 0),
        "distinct_valid_orders_returned_by_the_code": rep["extra"].get("valid_orders_observed", 0),
        "sort_calls": rep["steps"],
        "tlc_bfs_wall_s": bfs["wall_s"], "checker_cmd": bfs["cmd"],
    }
    res.assumptions = [
        "transaction sets are acyclic (a transaction spends only outputs of transactions with a smaller number or of transactions outside the set)",
        "every transaction has two outputs; a single edge p->j spends output (p+j) mod 2, a double edge both outputs",
        "conflicting unconfirmed siblings are inserted with InsertTx(nil block), which keeps both",
    ]
    return res.finish()
