"""C01, C02, C12, C13: spec/TxStore.tla bound to wtxmgr.Store by behaviour replay."""
import json, os
import vlib

CFG = {
    # prop: tier: (bfs cfg, keep-every-nth transition trace, sim traces, sim depth)
    "C01": {"quick": ("MC_TxStore_c01_quick.cfg", 1, 300), "thorough": ("MC_TxStore_c01_thorough.cfg", 1, 3000)},
    "C02": {"quick": ("MC_TxStore_path_quick.cfg", 1, 300), "thorough": ("MC_TxStore_path_thorough.cfg", 1, 3000)},
    "C13": {"quick": ("MC_TxStore_path_quick.cfg", 1, 300), "thorough": ("MC_TxStore_path_thorough.cfg", 1, 3000)},
    "C12": {"quick": ("MC_TxStore_c12_quick.cfg", 1, 300), "thorough": ("MC_TxStore_c12_thorough.cfg", 1, 3000)},
}
LEVEL = "model_checking"
PROPS = ["C01", "C02", "C12", "C13"]


def run(prop, tier, seed, scratch, replay=None):
    res = vlib.Result(prop, tier, seed, LEVEL)
    drv = vlib.build_driver(scratch, "replay-txstore")
    graphs = scratch.path("graphs.json")
    traces = scratch.path("traces.ndjson")
    report = scratch.path("report.json")

    if replay:
        with open(replay) as f:
            m = json.load(f)
        if m.get("sig", "").startswith("chainsync:"):
            from checks import chainsync
            return chainsync.run(prop, tier, seed, scratch, replay)
        if m.get("sig", "").startswith("spend:"):
            from checks import spend
            return spend.run(prop, tier, seed, scratch, replay)
        with open(traces, "w") as f:
            f.write(json.dumps(m["behaviour"]) + "\n")
        # graphs come from a minimal TLC run
        r = vlib.run_tlc(scratch, "TxStore.tla", "MC_TxStore_graphs.cfg", tag="graphs", timeout=120)
        with open(graphs, "w") as f:
            f.write(r["other"]["GRAPHS"][0])
        vlib.run_driver(drv, ["-in", traces, "-graphs", graphs, "-out", report, "-prop", prop])
        rep = vlib.load_report(report)
        res.add_report(rep)
        res.write_evidence = False
        res.coverage = {"states": 1, "transitions": 1, "traces_validated_against_impl": rep["traces"],
                        "samples": rep["samples"] or ["replay"], "replay_of": replay}
        return res.finish()

    cfg, every, nsim = CFG[prop][tier]
    bfs = vlib.run_tlc(scratch, "TxStore.tla", cfg, out_traces=traces, tag="bfs",
                       timeout=3000 if tier == "thorough" else 900)
    vlib.require_tlc_ok(bfs, "exhaustive exploration")
    with open(graphs, "w") as f:
        f.write(bfs["other"]["GRAPHS"][0])
    impl = None
    if prop in ("C01", "C12"):
        # design-level stage: the bucket-shaped transcription of tx.go / unconfirmed.go (spec/TxStoreImpl.tla) computes,
        # in every reachable state, exactly what the fact-level query operators demand
        icfg = "MC_TxStoreImpl_%s.cfg" % tier
        impl = vlib.run_tlc(scratch, "TxStoreImpl.tla", icfg, tag="impl", timeout=3000)
        vlib.require_tlc_ok(impl, "bucket-layer refinement (TxStoreImpl)")
    cov = None
    if tier == "thorough":
        cov = vlib.coverage_check(scratch, "TxStore.tla", CFG[prop]["quick"][0],
                                  ["SeeUnmined", "Confirm", "Rollback", "Abandon", "Lease", "Release", "Tick", "NewBlock"])
    simtr = scratch.path("sim.ndjson")
    sim = vlib.run_tlc(scratch, "TxStore.tla", "MC_TxStore_sim.cfg", simulate=nsim, depth=25, seed=seed,
                       out_traces=simtr, tag="sim", timeout=1800)
    if sim["errors"]:
        raise vlib.Broken("simulation run failed: %s" % sim["errors"][:3])
    allin = scratch.path("all.ndjson")
    vlib.merge_ndjson(allin, [traces, simtr])
    vlib.run_driver(drv, ["-in", allin, "-graphs", graphs, "-out", report, "-prop", prop,
                          "-workers", vlib.NCPU], timeout=7200)
    rep = vlib.load_report(report)
    res.add_report(rep)
    wl = None
    if prop in ("C02", "C13"):
        # wallet-level pass: the same reorg semantics seen through wallet.disconnectBlock / syncWithChain
        # (spec/ChainSync.tla behaviours on a real wallet + scripted backend; C02 owns the transaction status
        # by direct lookup, C13 the listing by range in both directions)
        wdrv = vlib.build_driver(scratch, "replay-wallet")
        wtr = scratch.path("cs.ndjson")
        wrep = scratch.path("cs-report.json")
        if tier == "quick":
            cs = vlib.run_tlc(scratch, "ChainSync.tla", "MC_ChainSync_sim.cfg", simulate=300, depth=26, seed=seed,
                              out_traces=wtr, tag="cs", timeout=900)
            if cs["errors"]:
                raise vlib.Broken("ChainSync simulation failed: %s" % cs["errors"][:3])
            every = 1
        else:
            cs = vlib.run_tlc(scratch, "ChainSync.tla", "MC_ChainSync_quick.cfg", out_traces=wtr, tag="cs", timeout=1800,
                              emit_every=20, emit_offset=seed)
            vlib.require_tlc_ok(cs, "ChainSync exploration (wallet-level pass)")
            every = 1
        vlib.run_driver(wdrv, ["-in", wtr, "-out", wrep, "-spec", "chainsync", "-prop", prop, "-seed", seed,
                               "-every", every, "-offset", seed % every, "-workers", vlib.NCPU], timeout=3600)
        wl = vlib.load_report(wrep)
        res.add_report(wl)
        if prop == "C13":
            # binding self-test of the listing comparison: a perturbed placement of a transaction must be noticed
            wl["binding_selftest"] = vlib.binding_selftest(
                scratch, wdrv, lambda i, o: ["-in", i, "-out", o, "-spec", "chainsync", "-prop", prop, "-seed", seed, "-workers", vlib.NCPU],
                wtr, ["wconf"], tag="cs-selftest", n=48, where=lambda tr: len(tr.get("steps") or []) >= 2)
    # binding self-test: the parts of the expectation this property asserts, perturbed, must be noticed
    fields = {"C01": ["bal", "utxo", "watch"], "C02": ["bal", "unmined"], "C12": ["leases", "bal"], "C13": ["details", "unmined"]}[prop]
    st = vlib.binding_selftest(scratch, drv, lambda i, o: ["-in", i, "-graphs", graphs, "-out", o, "-prop", prop, "-workers", vlib.NCPU],
                               traces, fields, where=lambda tr: len(tr.get("steps") or []) >= 3)
    sp = None
    if prop in ("C01", "C13"):
        # wallet-level pass: spec/Spend.tla walks (receipts on several accounts and key scopes, blocks, created
        # transactions with change, leases, restarts) on a real wallet.Wallet; C01 owns CalculateBalance / ListUnspent,
        # C13 owns GetTransactions (both directions) / ListAllTransactions
        from checks import spend
        sp = spend.wallet_pass(prop, tier, seed, scratch, 6 if tier == "quick" else 120)
        res.add_report(sp)
    if rep["traces"] != bfs["ntraces"] + sim["ntraces"]:
        res.errors.append("driver replayed %d of %d behaviours" % (rep["traces"], bfs["ntraces"] + sim["ntraces"]))
    res.coverage = {
        "states": bfs["distinct"], "transitions": bfs["generated"],
        "traces_validated_against_impl": rep["traces"],
        "evaluations": rep["checks"], "distinct_nontrivial": rep["distinct_nontrivial"],
        "rule": rep["rule"], "samples": rep["samples"],
        "exhaustive": True,
        "explanation": "TLC explored spec/TxStore.tla exhaustively under %s (depth %d), checking Inv and the action properties; "
                       "every transition of that state graph was emitted with the shortest history reaching it and replayed on the real "
                       "wtxmgr.Store, the store's answers being compared with the specification's query operators in the reached state; "
                       "%d additional random walks of 24 steps (seed %d) over larger graphs were replayed with a comparison after every step."
                       % (cfg, bfs["depth"], sim["ntraces"], seed),
        "replayed_steps": rep["steps"], "simulated_behaviours": sim["ntraces"],
        "tlc_bfs_wall_s": bfs["wall_s"], "checker_cmd": bfs["cmd"],
    }
    res.coverage["binding_selftest"] = st
    if cov:
        res.coverage["coverage_run"] = cov
    if impl:
        res.coverage["bucket_layer_refinement"] = {"spec": "spec/TxStoreImpl.tla", "cfg": icfg, "distinct_states": impl["distinct"],
                                                   "generated": impl["generated"], "invariant": "ImplInv", "wall_s": impl["wall_s"]}
    if sp:
        res.coverage["wallet_level_pass"] = {"spec": "spec/Spend.tla (random walks)", "behaviours_replayed": sp["traces"],
                                              "comparisons": sp["checks"], "distinct_nontrivial": sp["distinct_nontrivial"],
                                              "observed_through": "CalculateBalance, CalculateAccountBalances, ListUnspent" if prop == "C01"
                                              else "GetTransactions (ascending and descending), ListAllTransactions",
                                              "binding_selftest": sp.get("binding_selftest")}
        res.coverage["traces_validated_against_impl"] += sp["traces"]
    if wl and sp:
        res.coverage["wallet_level_pass_reorgs"] = {"spec": "spec/ChainSync.tla", "behaviours_replayed": wl["traces"], "comparisons": wl["checks"],
                                                     "distinct_nontrivial": wl["distinct_nontrivial"],
                                                     "observed_through": "GetTransactions (ascending and descending) after every step",
                                                     "binding_selftest": wl.get("binding_selftest")}
        res.coverage["traces_validated_against_impl"] += wl["traces"]
    elif wl:
        res.coverage["wallet_level_pass"] = {"behaviours_replayed": wl["traces"], "comparisons": wl["checks"],
                                              "distinct_nontrivial": wl["distinct_nontrivial"]}
        res.coverage["traces_validated_against_impl"] += wl["traces"]
    res.assumptions = [
        "transactions are delivered the way wallet.addRelevantTx does (InsertTxCheckIfExists, then AddCredit for own outputs unless the record existed)",
        "histories are chain-consistent by construction (enabling conditions of spec/TxStore.tla)",
        "output values are distinct powers of two (x1000 sat); block hashes are a function of (height, number of reorgs so far)",
    ]
    return res.finish()
