"""C15: spec/ChainSync.tla bound to wallet.Wallet + scripted backend by behaviour replay."""
import json, os
import vlib

PROPS = ["C15"]
EVERY = {"quick": 250, "thorough": 150}
NSIM = {"quick": 300, "thorough": 6000}


def run(prop, tier, seed, scratch, replay=None):
    res = vlib.Result(prop, tier, seed, "model_checking")
    drv = vlib.build_driver(scratch, "replay-wallet")
    traces = scratch.path("traces.ndjson")
    report = scratch.path("report.json")
    if replay:
        with open(replay) as f:
            m = json.load(f)
        with open(traces, "w") as f:
            f.write(json.dumps(m["behaviour"]) + "\n")
        vlib.run_driver(drv, ["-in", traces, "-out", report, "-spec", "chainsync", "-prop", prop, "-seed", seed])
        res.add_report(vlib.load_report(report))
        res.write_evidence = False
        return res.finish()
    cfg = "MC_ChainSync_%s.cfg" % tier
    every = EVERY[tier]
    bfs = vlib.run_tlc(scratch, "ChainSync.tla", cfg, out_traces=traces, tag="bfs", emit_every=every, emit_offset=seed,
                       timeout=3000 if tier == "thorough" else 600)
    vlib.require_tlc_ok(bfs, "exhaustive exploration")
    cov = None
    if tier == "thorough":
        cov = vlib.coverage_check(scratch, "ChainSync.tla", "MC_ChainSync_quick.cfg",
                                  ["Receive", "Extend", "Reorg", "Flap", "DupDisconnect", "StaleDisconnect", "Stop", "Start"])
    simtr = scratch.path("sim.ndjson")
    sim = vlib.run_tlc(scratch, "ChainSync.tla", "MC_ChainSync_sim.cfg", simulate=NSIM[tier], depth=26, seed=seed,
                       out_traces=simtr, tag="sim", timeout=1800)
    if sim["errors"]:
        raise vlib.Broken("simulation failed: %s" % sim["errors"][:3])
    vlib.run_driver(drv, ["-in", traces, "-out", report, "-spec", "chainsync", "-prop", prop, "-seed", seed,
                          "-workers", vlib.NCPU], timeout=7200)
    rep = vlib.load_report(report)
    report2 = scratch.path("report2.json")
    vlib.run_driver(drv, ["-in", simtr, "-out", report2, "-spec", "chainsync", "-prop", prop, "-seed", seed,
                          "-workers", vlib.NCPU], timeout=7200)
    rep2 = vlib.load_report(report2)
    res.add_report(rep)
    res.add_report(rep2)
    st = vlib.binding_selftest(scratch, drv, lambda i, o: ["-in", i, "-out", o, "-spec", "chainsync", "-prop", prop, "-seed", seed, "-workers", vlib.NCPU],
                               traces, ["wconf", "chain"], where=lambda tr: len(tr.get("steps") or []) >= 2)
    res.coverage = {
        "states": bfs["distinct"], "transitions": bfs["generated"],
        "traces_validated_against_impl": rep["traces"] + rep2["traces"],
        "evaluations": rep["checks"] + rep2["checks"],
        "distinct_nontrivial": rep["distinct_nontrivial"] + rep2["distinct_nontrivial"],
        "rule": rep["rule"], "samples": (rep["samples"] or [])[:2] + (rep2["samples"] or [])[:1],
        "exhaustive": every == 1,
        "explanation": "TLC explored spec/ChainSync.tla exhaustively under %s (depth %d) checking WalletFollows at every (quiescent) state; one in %d "
                       "transition of that state graph, with the shortest history reaching it, and %d random walks of 25 steps were replayed on a real "
                       "wallet.Wallet attached to the scripted backend: chain extensions, reorgs (disconnects top-down, FilteredBlockConnected before "
                       "BlockConnected), duplicate and stale disconnects, stop / off-line evolution / start (birthday check, rollback loop, rescan); "
                       "after every step the wallet is drained and SyncedTo, BlockHash(h) for every height from the birthday block to the tip, and the "
                       "confirming block of every wallet transaction are compared with the backend's best chain." % (cfg, bfs["depth"], every, sim["ntraces"]),
        "replayed_steps": rep["steps"] + rep2["steps"], "simulated_behaviours": sim["ntraces"],
        "tlc_bfs_wall_s": bfs["wall_s"], "checker_cmd": bfs["cmd"],
    }
    if cov:
        res.coverage["coverage_run"] = cov
    res.coverage["binding_selftest"] = st
    res.assumptions = [
        "the backend is the scripted chain.Interface of harness/internal/mockchain (bitcoind notification order, real watch-list semantics)",
        "every state is a quiescent point: the driver drains the wallet's notification goroutine after each backend action",
        "new best chains are at least as high as the one they replace; the birthday block itself is never reorganised away",
    ]
    return res.finish()
