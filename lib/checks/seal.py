"""C17: spec/Seal.tla (snacl as an ideal AEAD + passphrase key) bound to snacl and waddrmgr.Manager by case replay."""
import json, os
import vlib

PROPS = ["C17"]
LEVEL = "model_checking"

# tier: list of (cfg, tag, mode actions that must have been taken)
AEAD_ACTS = ["Encrypt", "EncryptAgain", "Flip", "Truncate", "Extend", "Decrypt"]
PASS_ACTS = ["NewSecretKey", "SealProbe", "Rekey", "Zero", "DeriveKey", "OpenProbe", "Marshal", "Unmarshal", "Restart", "FlipBlob"]
RUNS = {
    "quick": [("MC_Seal_aead_quick.cfg", "aead", AEAD_ACTS),
              ("MC_Seal_pass_quick.cfg", "pass", PASS_ACTS)],
    "thorough": [("MC_Seal_aead_thorough.cfg", "aead", AEAD_ACTS),
                 ("MC_Seal_flip2_thorough.cfg", "flip2", ["Encrypt", "Flip", "Decrypt"]),
                 ("MC_Seal_pass_thorough.cfg", "pass", PASS_ACTS),
                 ("MC_Seal_random_thorough.cfg", "random", ["FlipPlanned", "Decrypt"])],
}
MGR_EVERY = {"quick": 1, "thorough": 1}

ASSUMPTIONS = [
    "the cryptography is assumed ideal and is not examined: XSalsa20-Poly1305 (secretbox) opens a box iff it is the unmodified output of Seal under the same key and nonce; scrypt and SHA-256 are injective",
    "a ciphertext is laid out as 24-byte nonce, 16-byte Poly1305 tag, body (checked by the driver: length = 40 + plaintext length)",
    "only the result class (data returned / error) and the returned bytes are compared, not the error value",
    "at manager level the public and the private master key are both created from the behaviour's passphrase; an empty passphrase is exercised on snacl only (waddrmgr.Create refuses it)",
    "concurrency is explored for one worker and one controller (Lock/Unlock); the verdict comes from the real outcome (a returned ciphertext that does not open, a Decrypt that fails), never from timing",
    "scrypt parameters are small (N = 16..1024) so that ten thousands of derivations fit the budget",
]


def run(prop, tier, seed, scratch, replay=None):
    res = vlib.Result(prop, tier, seed, LEVEL)
    drv = vlib.build_driver(scratch, "replay-seal")
    traces = scratch.path("traces.ndjson")
    report = scratch.path("report.json")

    if replay:
        with open(replay) as f:
            m = json.load(f)
        with open(traces, "w") as f:
            f.write(json.dumps(m["behaviour"]) + "\n")
        vlib.run_driver(drv, ["-in", traces, "-out", report, "-workers", 1, "-seed", seed])
        rep = vlib.load_report(report)
        res.add_report(rep)
        res.write_evidence = False
        res.coverage = {"states": 1, "transitions": 1, "traces_validated_against_impl": rep["traces"],
                        "samples": rep["samples"] or ["replay"], "replay_of": replay}
        return res.finish()

    os.environ["VERIF_SEED"] = str(seed)     # read by Seal.tla (IOEnv) for the seeded flip positions
    states = transitions = ntraces = 0
    per_cfg = {}
    cmds = []
    wall = 0.0
    for cfg, tag, acts in RUNS[tier]:
        r = vlib.run_tlc(scratch, "Seal.tla", cfg, out_traces=traces, append_traces=True, tag=tag,
                         timeout=1500 if tier == "thorough" else 300, coverage=(tier == "thorough"))
        vlib.require_tlc_ok(r, "case enumeration " + cfg)
        if tier == "thorough":
            never = [a for a in acts if a in r["coverage_zero"] or a not in r["coverage"]]
            if never:
                raise vlib.Broken("%s: actions never taken: %s" % (cfg, never))
        states += r["distinct"]
        transitions += r["generated"]
        ntraces += r["ntraces"]
        wall += r["wall_s"]
        per_cfg[cfg] = {"states": r["distinct"], "transitions": r["generated"], "cases": r["ntraces"], "depth": r["depth"]}
        cmds.append(r["cmd"])
    vlib.run_driver(drv, ["-in", traces, "-out", report, "-workers", vlib.NCPU, "-procs", vlib.NCPU,
                          "-seed", seed, "-mgr-every", MGR_EVERY[tier]], timeout=3000)
    rep = vlib.load_report(report)
    res.add_report(rep)
    if rep["traces"] != ntraces:
        res.errors.append("driver replayed %d of %d behaviours" % (rep["traces"], ntraces))
    # binding self-test: with the prescribed result class of the last observation inverted, the driver must object
    flip = lambda v: ("error" if v == "ok" else "ok") if isinstance(v, str) else v
    st = vlib.binding_selftest(scratch, drv, lambda i, o: ["-in", i, "-out", o, "-workers", 4, "-seed", seed], traces, [("step.ret", flip)],
                               where=lambda tr: tr.get("steps") and tr["steps"][-1]["op"] in ("Decrypt", "OpenProbe", "DeriveKey")
                               and isinstance(tr["steps"][-1].get("ret"), str))
    # manager level, concurrent: spec/SealMgr.tla (Encrypt/Decrypt as a critical section against Lock)
    ctr = scratch.path("conc.ndjson")
    crep = scratch.path("conc-report.json")
    conc = vlib.run_tlc(scratch, "SealMgr.tla", "MC_SealMgr.cfg", out_traces=ctr, tag="conc", timeout=300)
    vlib.require_tlc_ok(conc, "SealMgr exploration")
    broken = vlib.run_tlc(scratch, "SealMgr.tla", "MC_SealMgr_broken.cfg", tag="concbroken", timeout=300)
    if broken["ok"] or not any("SealedUnderRealKey" in e for e in broken["errors"]):
        raise vlib.Broken("MC_SealMgr_broken.cfg must violate SealedUnderRealKey (the model would be vacuous): %s" % broken["errors"][:2])
    vlib.run_driver(drv, ["-in", ctr, "-out", crep, "-workers", 1, "-procs", vlib.NCPU, "-seed", seed], timeout=1200)
    cr = vlib.load_report(crep)
    res.add_report(cr)
    if cr["traces"] != conc["ntraces"]:
        res.errors.append("driver replayed %d of %d manager-concurrency behaviours" % (cr["traces"], conc["ntraces"]))
    states += conc["distinct"]
    transitions += conc["generated"]
    per_cfg["MC_SealMgr.cfg"] = {"states": conc["distinct"], "transitions": conc["generated"], "cases": conc["ntraces"], "depth": conc["depth"],
                                 "behaviours_with_lock_called_inside_the_section": cr["distinct_nontrivial"],
                                 "lock_completed_while_worker_in_section": (cr.get("extra") or {}).get("lock_completed_while_worker_in_section", 0)}
    cmds.append(conc["cmd"])
    rep["traces"] += cr["traces"]
    rep["checks"] += cr["checks"]
    rep["steps"] += cr["steps"]
    rep["distinct_nontrivial"] += cr["distinct_nontrivial"]
    res.coverage = {
        "states": states, "transitions": transitions,
        "traces_validated_against_impl": rep["traces"],
        "evaluations": rep["checks"], "distinct_nontrivial": rep["distinct_nontrivial"],
        "rule": rep["rule"], "samples": rep["samples"],
        "exhaustive": True,
        "explanation": "TLC explored spec/Seal.tla exhaustively under %s, checking the property's sentences (RoundTrip, OtherKeyFails, "
                       "TamperFails, Fresh, ExactPassphrase, ParamsRoundTrip) in every state; every transition of those state graphs is one case "
                       "(Encrypt / flip of one bit / truncation / extension / Decrypt under each key; NewSecretKey / Zero / DeriveKey of each "
                       "candidate / Marshal / Unmarshal of each length / alteration of each stored salt or digest bit / Restart) carrying the result "
                       "class the specification's operators prescribe; each case was executed on real snacl keys, on Manager.Encrypt/Decrypt of an "
                       "unlocked manager (CKTPublic/CKTPrivate/CKTScript) and, for public-key cases, of a locked manager; passphrase cases also on "
                       "waddrmgr.Create/Open/Unlock/Lock with a database reopen as restart. spec/SealMgr.tla (MC_SealMgr.cfg) models "
                       "Manager.Encrypt/Decrypt as select-key / use-key inside the manager mutex against a concurrent Lock (which wipes the keys in "
                       "place) and Unlock; every transition's behaviour was replayed with real goroutines, the worker parked at the hook "
                       "crypt.keyselected while Lock is called, and every ciphertext Encrypt returned was opened again after the next Unlock."
                       % ", ".join(c for c, _, _ in RUNS[tier]),
        "binding_selftest": st,
        "per_config": per_cfg, "replayed_steps": rep["steps"], "driver_counters": rep.get("extra", {}),
        "tlc_wall_s": round(wall, 1), "checker_cmd": " ; ".join(cmds),
    }
    res.assumptions = ASSUMPTIONS
    return res.finish()
