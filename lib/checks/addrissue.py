"""C09: spec/AddrIssue.tla (PlusCal) + gate-scheduled and free-running concurrent issuance on the real wallet,
recorded executions validated by spec/AddrIssueTrace.tla."""
import json, os, shutil
import vlib

PROPS = ["C09"]


def tlc_accepts(scratch, trace_path, tag):
    """True iff AddrIssueTrace accepts the whole file (NotAccepted violated)."""
    wd = scratch.path(tag + "-in")
    os.makedirs(wd, exist_ok=True)
    dst = os.path.join(wd, "trace.ndjson")
    shutil.copy(trace_path, dst)
    r = vlib.run_tlc(scratch, "AddrIssueTrace.tla", "MC_AddrIssueTrace.cfg", tag=tag, workers=1, timeout=600, extra_files=[dst])
    accepted = any("NotAccepted is violated" in e for e in r["errors"])
    other = [e for e in r["errors"] if "NotAccepted" not in e and "behavior up to this point" not in e and not e.startswith("Error: The behavior")]
    if other:
        raise vlib.Broken("trace validation failed to run: %s\n%s" % (other[:3], "\n".join(r["tail"][-15:])))
    return accepted, r


def run(prop, tier, seed, scratch, replay=None):
    res = vlib.Result(prop, tier, seed, "model_checking")
    drv = vlib.build_driver(scratch, "replay-wallet")
    # 1. the design: all callers guarded => property; one unguarded => TLC must find the duplicate
    ok = vlib.run_tlc(scratch, "AddrIssue.tla", "MC_AddrIssue.cfg", tag="design", timeout=600, coverage=(tier == "thorough"))
    vlib.require_tlc_ok(ok, "AddrIssue (all callers guarded)")
    broken = vlib.run_tlc(scratch, "AddrIssue.tla", "MC_AddrIssue_broken.cfg", tag="broken", timeout=600)
    if not any("Inv is violated" in e for e in broken["errors"]):
        raise vlib.Broken("non-vacuity: the model without the mutex at one site does not produce a duplicate")
    # 2. the code
    report = scratch.path("report.json")
    tr = scratch.path("recorded.ndjson")
    grace = "250ms" if tier == "quick" else "1s"
    rounds = 2 if tier == "quick" else 5
    stress = 6 if tier == "quick" else 40
    traces_ok = traces_total = 0
    evals = nontriv = 0
    samples = []
    for k in range(rounds):
        vlib.run_driver(drv, ["-spec", "race-addr", "-prop", prop, "-out", report, "-traceout", tr, "-seed", seed + k,
                              "-grace", grace, "-stress", stress], timeout=1800)
        rep = vlib.load_report(report)
        res.add_report(rep)
        evals += rep["checks"]; nontriv = max(nontriv, rep["distinct_nontrivial"]); samples = rep["samples"] or samples
        n = rep["extra"].get("recorded_traces", 0)
        traces_total += n
        if n:
            accepted, r = tlc_accepts(scratch, tr, "tv%d" % k)
            if accepted:
                traces_ok += n
            else:
                # localise: validate the scenarios one by one
                chunks, cur = [], []
                for line in open(tr):
                    if '"reset"' in line:
                        chunks.append(cur); cur = []
                    else:
                        cur.append(line)
                chunks.append(cur)
                for i, ch in enumerate(chunks):
                    one = scratch.path("one-%d-%d.ndjson" % (k, i))
                    open(one, "w").write("".join(ch))
                    acc, _ = tlc_accepts(scratch, one, "tv%d-%d" % (k, i))
                    if acc:
                        traces_ok += 1
                    else:
                        res.mismatches.append({"prop": prop, "sig": "race:trace-rejected", "what": "recorded execution is not a behaviour of AddrIssue.tla",
                                               "observed": [json.loads(x) for x in ch], "expected": "accepted by AddrIssueTrace.tla",
                                               "behaviour": {"scenario": "recorded trace %d of round %d" % (i, k)}})
    # 3. binding self-test (thorough): a corrupted recording must be rejected
    if tier == "thorough" and traces_total:
        bad = scratch.path("bad.ndjson")
        with open(bad, "w") as f:
            f.write('{"ev":"gate","c":1,"idx":0}\n{"ev":"gate","c":2,"idx":0}\n{"ev":"done","c":2,"idx":0}\n{"ev":"done","c":1,"idx":0}\n')
        acc, _ = tlc_accepts(scratch, bad, "tvbad")
        if acc:
            raise vlib.Broken("binding self-test: a recording with two callers issued index 0 was accepted")
    res.coverage = {
        "states": ok["distinct"], "transitions": ok["generated"],
        "traces_validated_against_impl": traces_ok, "recorded_traces": traces_total,
        "evaluations": evals, "distinct_nontrivial": nontriv, "samples": samples or ["gate scenarios"],
        "rule": "non-trivial = distinct ordered pairs (A, B) of issuing call sites (NewAddress, CurrentAddress, NewChangeAddress, CreateSimpleTx with change, "
                "FundPsbt with change; ImportAccountDryRun as B) driven with A parked at its commit callback, plus stress rounds",
        "explanation": "TLC checks AddrIssue.tla (3 callers, every interleaving of mutex / writer lock / derive-from-memory / write / commit / callback) for distinct, "
                       "gap-free indices and disk = memory, proves termination under weak fairness, and must find the duplicate when one caller skips the mutex. "
                       "On the real wallet every ordered pair of call sites is scheduled through a blocking hook at the start of nextAddresses' commit callback "
                       "(caller A parked inside the hazard window, caller B started, grace %s), then %d stress rounds of 16 goroutines run freely; returned addresses "
                       "must be pairwise distinct, indices gap-free, in-memory counts and a manager opened on a copy of the database must agree. The recorded "
                       "gate/done events of the pair scenarios are validated against the specification by TLC (AddrIssueTrace.tla)." % (grace, stress),
        "non_vacuity": "MC_AddrIssue_broken.cfg violated Inv as required",
    }
    res.assumptions = ["a slow caller B can only hide a missing mutex (missed detection), never raise an alarm: verdicts are on returned addresses and indices",
                       "needs hook waddrmgr.VerifPoint(nextaddr.oncommit)"]
    return res.finish()
