"""C03, C04, C05, C08: spec/AddrMgr.tla bound to waddrmgr.Manager by behaviour replay."""
import json, os
import vlib

PROPS = ["C03", "C04", "C05", "C08"]   # C10 is served by lib/checks/faults.py through run()
LEVEL = "model_checking"
FAMILY = {"C03": "issue", "C08": "issue", "C05": "lock", "C04": "lock", "C10": "issue"}
# quick: replay every n-th transition trace (rotated by the seed); thorough: all
EVERY = {"quick": {"issue": 60, "lock": 50}, "thorough": {"issue": 10, "lock": 10}}
EVERY_C10 = {"quick": 150, "thorough": 10}
NSIM = {"quick": 150, "thorough": 1200}
# Rolled-back transactions of these operations trip open findings (memory is
# advanced inside the transaction: F10, F11, F14, F17, F24, F26). Only the property that
# owns the finding generates them; the others leave those histories out.
ALLRB = '{"Extend", "SetSynced", "ChangePriv", "ChangePub", "ConvertWO", "NewScope", "Import"}'
NOROLLBACK = {"C03": ALLRB, "C04": ALLRB, "C05": '{"Extend", "SetSynced", "NewScope"}', "C08": "{}", "C10": ALLRB}


def run(prop, tier, seed, scratch, replay=None):
    res = vlib.Result(prop, tier, seed, "fault_enumeration" if prop == "C10" else LEVEL)
    drv = vlib.build_driver(scratch, "replay-addrmgr")
    traces = scratch.path("traces.ndjson")
    report = scratch.path("report.json")
    if replay:
        with open(replay) as f:
            m = json.load(f)
        with open(traces, "w") as f:
            f.write(json.dumps(m["behaviour"]) + "\n")
        if m.get("sig", "").startswith("addrwallet:"):
            wdrv = vlib.build_driver(scratch, "replay-wallet")
            vlib.run_driver(wdrv, ["-in", traces, "-out", report, "-spec", "addrmgr-wallet", "-prop", prop, "-seed", seed])
        else:
            vlib.run_driver(drv, ["-in", traces, "-out", report, "-prop", prop, "-seed", seed])
        rep = vlib.load_report(report)
        res.add_report(rep)
        res.write_evidence = False
        return res.finish()

    fam = FAMILY[prop]
    cfg = "MC_AddrMgr_%s_%s.cfg" % (fam, tier)
    subst = {"NoRollback = {}": "NoRollback = " + NOROLLBACK[prop]}
    if prop == "C10":
        subst["ACTION_CONSTRAINT EmitStep"] = "ACTION_CONSTRAINT EmitStepPre"
    every = EVERY_C10[tier] if prop == "C10" else EVERY[tier][fam]
    bfs = vlib.run_tlc(scratch, "AddrMgr.tla", cfg, out_traces=traces, tag="bfs", cfg_subst=subst, emit_every=every, emit_offset=seed,
                       timeout=3000 if tier == "thorough" else 600)
    vlib.require_tlc_ok(bfs, "exhaustive exploration")
    cfgtext = open(os.path.join(vlib.SPEC, cfg)).read()
    acts = [x for x in ("NextAddr", "Extend", "Lookup", "DerivePath", "DeriveCache", "MarkUsed", "NewAccount", "ImportXpub", "Rename",
                        "Import", "Unlock", "Lock", "ChangePriv", "ChangePub", "ConvertWO", "SetSynced", "Restart") if '"%s"' % x in cfgtext]
    cov = vlib.op_histogram(traces, acts, cfg, probe=lambda op: vlib.op_reachable(scratch, "AddrMgr.tla", cfg, op, cfg_subst=subst))
    simtr = scratch.path("sim.ndjson")
    sim = vlib.run_tlc(scratch, "AddrMgr.tla", "MC_AddrMgr_sim.cfg", cfg_subst={"NoRollback = {}": "NoRollback = " + NOROLLBACK[prop]}, simulate=NSIM[tier] // 2, depth=31, seed=seed,
                       out_traces=simtr, tag="sim", timeout=1800)
    if sim["errors"]:
        raise vlib.Broken("simulation run failed: %s" % sim["errors"][:3])
    # second family of walks: taproot and legacy scopes, witness-script and taproot-script imports
    sim2 = vlib.run_tlc(scratch, "AddrMgr.tla", "MC_AddrMgr_sim2.cfg", cfg_subst={"NoRollback = {}": "NoRollback = " + NOROLLBACK[prop]}, simulate=NSIM[tier] // 2, depth=31, seed=seed,
                        out_traces=simtr, append_traces=True, tag="sim2", timeout=1800)
    if sim2["errors"]:
        raise vlib.Broken("simulation run (sim2) failed: %s" % sim2["errors"][:3])
    sim["ntraces"] += sim2["ntraces"]
    # "scope" stage: a custom key scope (NewScopedKeyManager) that does not exist until it is created and committed
    sctr = scratch.path("scope.ndjson")
    scope = vlib.run_tlc(scratch, "AddrMgr.tla", "MC_AddrMgr_scope_quick.cfg", out_traces=sctr, tag="scope", cfg_subst=dict(subst), timeout=600)
    vlib.require_tlc_ok(scope, "exhaustive exploration (custom scope)")
    # wallet-level stage (C08, C03): the same specification driven through wallet.Wallet's account / address API
    wl = None
    if prop in ("C08", "C03", "C05"):
        wdrv = vlib.build_driver(scratch, "replay-wallet")
        wtr = scratch.path("wallet.ndjson")
        wev = 100 if tier == "quick" else 20
        wbfs = vlib.run_tlc(scratch, "AddrMgr.tla", "MC_AddrMgr_wallet.cfg", out_traces=wtr, tag="wallet", timeout=900,
                            emit_every=wev, emit_offset=seed)
        vlib.require_tlc_ok(wbfs, "exhaustive exploration (wallet-level stage)")
        wsim = vlib.run_tlc(scratch, "AddrMgr.tla", "MC_AddrMgr_wallet_sim.cfg", simulate=300 if tier == "quick" else 1000, depth=27, seed=seed,
                            out_traces=wtr, append_traces=True, tag="walletsim", timeout=900)
        if wsim["errors"]:
            raise vlib.Broken("wallet-level simulation failed: %s" % wsim["errors"][:3])
        wrep = scratch.path("wallet-report.json")
        vlib.run_driver(wdrv, ["-in", wtr, "-out", wrep, "-spec", "addrmgr-wallet", "-prop", prop, "-seed", seed, "-workers", vlib.NCPU], timeout=3600)
        wl = vlib.load_report(wrep)
        if wl["traces"] != wbfs["ntraces"] + wsim["ntraces"]:
            raise vlib.Broken("wallet-level stage replayed %d of %d behaviours" % (wl["traces"], wbfs["ntraces"] + wsim["ntraces"]))
        wl["_states"], wl["_transitions"] = wbfs["distinct"], wbfs["generated"]
        wl["_selftest"] = vlib.binding_selftest(
            scratch, wdrv, lambda i, o: ["-in", i, "-out", o, "-spec", "addrmgr-wallet", "-prop", prop, "-seed", seed, "-workers", vlib.NCPU],
            wtr, {"C08": ["accts"], "C03": ["step.a.first"], "C05": ["step.ret"]}[prop], tag="wl-selftest",
            where={"C08": (lambda tr: len(tr.get("steps") or []) >= 3),
                   "C03": (lambda tr: tr.get("steps") and tr["steps"][-1]["op"] == "NextAddr" and tr["steps"][-1]["ret"] == "ok"),
                   "C05": (lambda tr: tr.get("steps") and tr["steps"][-1]["op"] in ("Unlock", "ChangeBoth"))}[prop])
    every = EVERY_C10[tier] if prop == "C10" else EVERY[tier][fam]
    vlib.run_driver(drv, ["-in", traces, "-out", report, "-prop", prop, "-seed", seed, "-workers", vlib.NCPU], timeout=7200)
    rep = vlib.load_report(report)
    report2 = scratch.path("report2.json")
    vlib.run_driver(drv, ["-in", simtr, "-out", report2, "-prop", prop, "-seed", seed, "-workers", vlib.NCPU], timeout=7200)
    rep2 = vlib.load_report(report2)
    report3 = scratch.path("report3.json")
    severy = 1
    vlib.run_driver(drv, ["-in", sctr, "-out", report3, "-prop", prop, "-seed", seed, "-every", severy, "-offset", seed % severy,
                          "-workers", vlib.NCPU], timeout=7200)
    rep3 = vlib.load_report(report3)
    res.add_report(rep)
    res.add_report(rep2)
    res.add_report(rep3)
    if wl:
        res.add_report(wl)
    for k in ("traces", "checks", "steps", "distinct_nontrivial"):
        rep2[k] += rep3[k]
    for k, v in (rep3.get("extra") or {}).items():
        rep2["extra"][k] = rep2["extra"].get(k, 0) + v
    st = None
    # C03 asserts at issue time, on the step's own prescription (first index issued), not on the final observation
    sf = {"C08": ["accts", "used", "imp", "sync"], "C03": ["step.a.first"], "C05": ["gate", "mayHoldClear", "locked"]}.get(prop)
    if sf:
        where = (lambda tr: len(tr.get("steps") or []) >= 10) if prop != "C03" else \
                (lambda tr: tr.get("steps") and tr["steps"][-1]["op"] == "NextAddr" and tr["steps"][-1]["ret"] == "ok"
                 and tr["steps"][-1]["a"].get("oc") == "commit")
        st = vlib.binding_selftest(scratch, drv, lambda i, o: ["-in", i, "-out", o, "-prop", prop, "-seed", seed, "-workers", vlib.NCPU],
                                   simtr, sf, n=48, where=where)
    res.coverage = {
        "states": bfs["distinct"], "transitions": bfs["generated"],
        "traces_validated_against_impl": rep["traces"] + rep2["traces"],
        "evaluations": rep["checks"] + rep2["checks"],
        "distinct_nontrivial": rep["distinct_nontrivial"] + rep2["distinct_nontrivial"],
        "rule": rep["rule"], "samples": (rep["samples"] or [])[:2] + (rep2["samples"] or [])[:1],
        "exhaustive": every == 1,
        "explanation": "TLC explored spec/AddrMgr.tla exhaustively under %s (depth %d) checking Inv and the action properties; "
                       "%s transition of that state graph (each with the shortest history reaching it) was replayed on the real "
                       "waddrmgr.Manager with wallet seeds derived from VERIF_SEED=%d, plus %d random walks of 30 steps over more scopes/accounts."
                       % (cfg, bfs["depth"], "every" if every == 1 else "one in %d (sampled inside TLC)" % every, seed, sim["ntraces"]),
        "replayed_steps": rep["steps"] + rep2["steps"], "simulated_behaviours": sim["ntraces"],
        "tlc_bfs_wall_s": bfs["wall_s"], "checker_cmd": bfs["cmd"],
        "custom_scope_stage": {"cfg": "MC_AddrMgr_scope_quick.cfg", "states": scope["distinct"], "transitions": scope["generated"],
                               "behaviours_replayed": rep3["traces"]},
        "diverged_behaviours": rep["extra"].get("diverged_behaviours", 0) + rep2["extra"].get("diverged_behaviours", 0),
    }
    res.coverage["transitions_per_operation"] = cov
    if wl:
        res.coverage["wallet_level_stage"] = {"cfg": "MC_AddrMgr_wallet.cfg", "states": wl["_states"], "transitions": wl["_transitions"],
                                              "behaviours_replayed": wl["traces"], "comparisons": wl["checks"],
                                              "through": "Wallet.NewAddress / NewChangeAddress / NextAccount / ImportAccount / ImportAccountDryRun / "
                                                         "RenameAccount / Lock / Unlock / AddressInfo / AccountProperties / AccountNumber / AccountName, restart",
                                              "binding_selftest": wl["_selftest"]}
        res.coverage["traces_validated_against_impl"] += wl["traces"]
    if st:
        res.coverage["binding_selftest"] = st
    if prop == "C10":
        res.coverage["faults_injected"] = rep["extra"].get("faults_injected", 0) + rep2["extra"].get("faults_injected", 0)
    res.assumptions = [
        "key derivation is an uninterpreted function in TLA+; it is bound to real bytes by an independent oracle (btcd hdkeychain + standard address encodings) in the driver",
        "wallet seeds are sampled (derived from VERIF_SEED and the behaviour index); operation sequences are enumerated",
        "scrypt runs with N=16 (waddrmgr.SetSecretKeyGen / ScryptOptions) to keep passphrase operations cheap",
    ]
    return res.finish()
