"""C06, C20: spec/Spend.tla bound to wallet.Wallet + scripted backend by behaviour replay."""
import json, os
import vlib

PROPS = ["C06", "C20"]
EVERY = {"quick": 500, "thorough": 600}
NSIM = {"quick": 15, "thorough": 300}   # each walk yields one behaviour per successor of its last state (~45)


def wallet_pass(prop, tier, seed, scratch, nsim):
    """Replay random walks of spec/Spend.tla on a real wallet for a property that owns one observation class
    of the driver (C01: balance / spendable outputs, C13: transaction listing). Returns the driver report."""
    drv = vlib.build_driver(scratch, "replay-wallet")
    simtr = scratch.path("wl-sim.ndjson")
    sim = vlib.run_tlc(scratch, "Spend.tla", "MC_Spend_sim.cfg", simulate=nsim, depth=29, seed=seed,
                       out_traces=simtr, tag="wlsim", timeout=1800)
    if sim["errors"]:
        raise vlib.Broken("Spend simulation failed: %s" % sim["errors"][:3])
    report = scratch.path("wl-report.json")
    vlib.run_driver(drv, ["-in", simtr, "-out", report, "-spec", "spend", "-prop", prop, "-seed", seed,
                          "-workers", vlib.NCPU], timeout=7200)
    rep = vlib.load_report(report)
    if rep["traces"] != sim["ntraces"]:
        raise vlib.Broken("wallet-level pass replayed %d of %d behaviours" % (rep["traces"], sim["ntraces"]))
    fields = {"C01": ["spendable", "bal", "acctBal"], "C13": ["st", "sends.0.status"]}[prop]
    rep["binding_selftest"] = vlib.binding_selftest(
        scratch, drv, lambda i, o: ["-in", i, "-out", o, "-spec", "spend", "-prop", prop, "-seed", seed, "-workers", vlib.NCPU],
        simtr, fields, tag="wl-selftest", n=48,
        where=lambda tr: any(x["op"] in ("Send", "SendExplicit") and x["ret"] == "ok" for x in tr["steps"]))
    return rep


def run(prop, tier, seed, scratch, replay=None):
    res = vlib.Result(prop, tier, seed, "model_checking")
    drv = vlib.build_driver(scratch, "replay-wallet")
    traces = scratch.path("traces.ndjson")
    report = scratch.path("report.json")
    if replay:
        with open(replay) as f:
            m = json.load(f)
        with open(traces, "w") as f:
            f.write(json.dumps(m["behaviour"]) + "\n")
        vlib.run_driver(drv, ["-in", traces, "-out", report, "-spec", "spend", "-prop", prop, "-seed", seed])
        res.add_report(vlib.load_report(report))
        res.write_evidence = False
        return res.finish()
    cfg = "MC_Spend_%s.cfg" % tier
    every = EVERY[tier]
    bfs = vlib.run_tlc(scratch, "Spend.tla", cfg, out_traces=traces, tag="bfs", emit_every=every, emit_offset=seed,
                       timeout=3400 if tier == "thorough" else 600)
    vlib.require_tlc_ok(bfs, "exhaustive exploration")
    cfgtext = open(os.path.join(vlib.SPEC, cfg)).read()
    required = [x for x in ("Receive", "Mine", "Lock", "Send", "SendExplicit", "FundOwn", "DryRun", "Restart", "RestartRej", "Resync", "ResyncRej") if '"%s"' % x in cfgtext]
    if '"SendExplicit"' in cfgtext:
        required.append("SendDup")
    if '"Lock"' in cfgtext:
        required.append("Unlock")
    cov = vlib.op_histogram(traces, required, cfg, probe=lambda op: vlib.op_reachable(scratch, "Spend.tla", cfg, op))
    simtr = scratch.path("sim.ndjson")
    sim = vlib.run_tlc(scratch, "Spend.tla", "MC_Spend_sim.cfg", simulate=NSIM[tier], depth=29, seed=seed,
                       out_traces=simtr, tag="sim", timeout=1800)
    if sim["errors"]:
        raise vlib.Broken("simulation failed: %s" % sim["errors"][:3])
    vlib.run_driver(drv, ["-in", traces, "-out", report, "-spec", "spend", "-prop", prop, "-seed", seed,
                          "-workers", vlib.NCPU], timeout=7200)
    rep = vlib.load_report(report)
    report2 = scratch.path("report2.json")
    vlib.run_driver(drv, ["-in", simtr, "-out", report2, "-spec", "spend", "-prop", prop, "-seed", seed,
                          "-workers", vlib.NCPU], timeout=7200)
    rep2 = vlib.load_report(report2)
    res.add_report(rep)
    res.add_report(rep2)
    # binding self-test: each compared part of the expectation, perturbed, must be noticed
    if prop == "C20":
        fields = ["spendable", "bal", "acctBal", "sends.0.status", "leased"]
        where = lambda tr: any(x["op"] in ("Send", "SendExplicit") and x["ret"] == "ok" for x in tr["steps"])
    else:
        fields = ["step.ret"]
        where = lambda tr: tr["steps"] and tr["steps"][-1]["op"] in ("Send", "SendExplicit", "FundOwn", "SendDup")
    st = vlib.binding_selftest(scratch, drv, lambda i, o: ["-in", i, "-out", o, "-spec", "spend", "-prop", prop, "-seed", seed, "-workers", vlib.NCPU],
                               traces, fields, where=where)
    res.coverage = {
        "states": bfs["distinct"], "transitions": bfs["generated"],
        "traces_validated_against_impl": rep["traces"] + rep2["traces"],
        "evaluations": rep["checks"] + rep2["checks"],
        "distinct_nontrivial": rep["distinct_nontrivial"] + rep2["distinct_nontrivial"],
        "rule": rep["rule"], "samples": (rep["samples"] or [])[:2] + (rep2["samples"] or [])[:1],
        "exhaustive": every == 1,
        "explanation": "TLC explored spec/Spend.tla exhaustively under %s (depth %d) checking NoDoubleSpend, SpentNotEligible, InputsWereOwn, "
                       "LockedLeasedNotEligible and FailedBroadcastNoTrace; one transition in %d of that state graph (sampled inside TLC) and %d random walks of 28 steps "
                       "were replayed on a real, unlocked wallet.Wallet attached to the scripted backend (receipts on 2 accounts x 2 key scopes, blocks, "
                       "outpoint locks, leases, SendOutputs with largest-first selection sized to need exactly k coins, SendOutputsWithInput over arbitrary "
                       "coin subsets, CreateSimpleTx dry runs with random selection, backend answers accepted / rejected / failing subscription, restarts)."
                       % (cfg, bfs["depth"], every, sim["ntraces"]),
        "replayed_steps": rep["steps"] + rep2["steps"], "simulated_behaviours": sim["ntraces"],
        "diverged_behaviours": rep["extra"].get("diverged_behaviours", 0) + rep2["extra"].get("diverged_behaviours", 0),
        "tlc_bfs_wall_s": bfs["wall_s"], "checker_cmd": bfs["cmd"],
    }
    res.coverage["transitions_per_operation"] = cov
    res.coverage["binding_selftest"] = st
    res.assumptions = [
        "the backend is the scripted chain.Interface of harness/internal/mockchain",
        "request amounts are derived from the prescription (sum of the k largest eligible coins minus a margin of 0.4-0.5 mBTC) so that largest-first selection is determined; fee rate 1000 sat/kvB",
        "answers 'already known' / 'already confirmed' are not generated (the property leaves their effect open)",
    ]
    return res.finish()
