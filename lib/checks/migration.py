"""C19: spec/Migration.tla bound to walletdb/migration.Upgrade (and the version checks of
wtxmgr.Open / waddrmgr.Open) by replaying every case TLC enumerates."""
import json
import vlib

LEVEL = "model_checking"
PROPS = ["C19"]

# tier -> [(cfg, tag, coverage wanted)]
CFGS = {
    "quick": [("MC_Migration_mock1_quick.cfg", "mock1", False),
              ("MC_Migration_mock2.cfg", "mock2", False),
              ("MC_Migration_real.cfg", "real", False)],
    "thorough": [("MC_Migration_mock1_thorough.cfg", "mock1", True),
                 ("MC_Migration_mock2.cfg", "mock2", True),
                 ("MC_Migration_real.cfg", "real", True)],
}
ACTIONS = ("Begin", "ReadVersions", "Switch", "Apply", "SetVersion", "Return", "Commit", "Rollback")


def run(prop, tier, seed, scratch, replay=None):
    res = vlib.Result(prop, tier, seed, LEVEL)
    drv = vlib.build_driver(scratch, "replay-migration")
    cases = scratch.path("cases.ndjson")
    report = scratch.path("report.json")

    if replay:
        with open(replay) as f:
            m = json.load(f)
        with open(cases, "w") as f:
            f.write(json.dumps(m["behaviour"]) + "\n")
        vlib.run_driver(drv, ["-in", cases, "-out", report, "-workers", 1])
        rep = vlib.load_report(report)
        res.add_report(rep)
        res.write_evidence = False
        res.coverage = {"states": 1, "transitions": 1, "traces_validated_against_impl": rep["traces"],
                        "samples": rep["samples"] or [m["behaviour"]], "replay_of": replay}
        return res.finish()

    states = transitions = ncases = 0
    runs = []
    parts = []
    for cfg, tag, cov in CFGS[tier]:
        part = scratch.path("cases-%s.ndjson" % tag)
        # few workers: the state graph is 10^4..10^5 disjoint short chains, more workers only contend
        r = vlib.run_tlc(scratch, "Migration.tla", cfg, out_traces=part, tag=tag, workers=4,
                         timeout=1500 if tier == "thorough" else 300, coverage=cov)
        vlib.require_tlc_ok(r, "exhaustive enumeration %s" % cfg)
        if r["ntraces"] == 0:
            raise vlib.Broken("%s produced no case" % cfg)
        if cov:
            dead = [a for a in r["coverage_zero"] if a in ACTIONS]
            if dead:
                raise vlib.Broken("actions never taken under %s: %s" % (cfg, dead))
        states += r["distinct"]
        transitions += r["generated"]
        ncases += r["ntraces"]
        parts.append(part)
        runs.append({"cfg": cfg, "cases": r["ntraces"], "states": r["distinct"], "depth": r["depth"],
                     "wall_s": r["wall_s"], "cmd": r["cmd"]})
    vlib.merge_ndjson(cases, parts)
    vlib.run_driver(drv, ["-in", cases, "-out", report, "-workers", vlib.NCPU], timeout=3000)
    rep = vlib.load_report(report)
    res.add_report(rep)
    if rep["traces"] != ncases:
        res.errors.append("driver ran %d of %d cases" % (rep["traces"], ncases))
    st = vlib.binding_selftest(scratch, drv, lambda i, o: ["-in", i, "-out", o, "-workers", 4], cases, ["events", "err", "disk"],
                               where=lambda c: len((c.get("exp") or {}).get("events") or []) >= 1)
    res.coverage = {
        "binding_selftest": st,
        "states": states, "transitions": transitions,
        "traces_validated_against_impl": rep["traces"],
        "evaluations": rep["checks"], "distinct_nontrivial": rep["distinct_nontrivial"],
        "rule": rep["rule"], "samples": rep["samples"],
        "exhaustive": True,
        "explanation": "TLC explored spec/Migration.tla (Begin, upgrade section by section, Commit/Rollback) from every case of each "
                       "family and checked the property's sentences as invariants of the final state; every case was printed with the "
                       "outcome the specification reaches and executed on the real migration.Upgrade inside one walletdb.Update on a "
                       "bdb database: sequence of migration/SetVersion calls, error class, versions inside the transaction and on disk, "
                       "markers written by the migrations, byte-identical namespace dump after a failed or refused upgrade, "
                       "VersionsToApply / GetLatestVersion on the declared table; for the real family wtxmgr/waddrmgr databases with a "
                       "rewritten version key are upgraded by the packages' own managers and opened before and after.",
        "cases_per_family": {k[6:]: v for k, v in rep["extra"].items() if k.startswith("cases_")},
        "expected_outcomes": {k[7:]: v for k, v in rep["extra"].items() if k.startswith("expect_")},
        "tlc_runs": runs,
    }
    res.assumptions = [
        "version numbers within one table are distinct (tables are sets of numbers in a declared order)",
        "the recording managers' migration functions do not write the version key themselves",
        "real family: lower versions are fabricated from a freshly created (latest-schema) database by rewriting the version key; "
        "waddrmgr versions below 5 (different bucket layout) are not fabricated",
    ]
    return res.finish()
