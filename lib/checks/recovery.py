"""C16: RecoveryBranch.tla, RecoveryScan.tla, Birthday.tla bound to wallet recovery by replay."""
import json, os
import vlib

PROPS = ["C16"]
SCAN = {  # tier -> list of (cfg, replay every n-th behaviour)
    "quick": [("MC_RecoveryScan_quick.cfg", 250), ("MC_RecoveryScan_w1.cfg", 40)],
    "thorough": [("MC_RecoveryScan_quick.cfg", 25), ("MC_RecoveryScan_w1.cfg", 4), ("MC_RecoveryScan_thorough.cfg", 15),
                 ("MC_RecoveryScan_batch.cfg", 20)],
}
BDAY = {"quick": ("MC_Birthday_quick.cfg", 4), "thorough": ("MC_Birthday_thorough.cfg", 1)}


def run(prop, tier, seed, scratch, replay=None):
    res = vlib.Result(prop, tier, seed, "model_checking")
    drv = vlib.build_driver(scratch, "replay-wallet")
    report = scratch.path("report.json")
    if replay:
        with open(replay) as f:
            m = json.load(f)
        b = m["behaviour"]
        kind, payload = list(b.items())[0]
        spec = {"branch": "recovery-branch", "birthday": "recovery-birthday", "scan": "recovery-scan"}[kind]
        tr = scratch.path("one.ndjson")
        with open(tr, "w") as f:
            f.write(json.dumps(payload) + "\n")
        vlib.run_driver(drv, ["-in", tr, "-out", report, "-spec", spec, "-prop", prop, "-seed", seed])
        res.add_report(vlib.load_report(report))
        res.write_evidence = False
        return res.finish()

    states = transitions = traces = evals = nontriv = 0
    samples, parts = [], {}

    # (a) the look-ahead bookkeeping
    t1 = scratch.path("branch.ndjson")
    a = vlib.run_tlc(scratch, "RecoveryBranch.tla", "MC_RecoveryBranch.cfg", out_traces=t1, tag="branch", timeout=600,
                     coverage=(tier == "thorough"))
    vlib.require_tlc_ok(a, "RecoveryBranch")
    vlib.run_driver(drv, ["-in", t1, "-out", report, "-spec", "recovery-branch", "-prop", prop])
    rep = vlib.load_report(report)
    res.add_report(rep)
    states += a["distinct"]; transitions += a["generated"]; traces += rep["traces"]; evals += rep["checks"]
    nontriv += rep["distinct_nontrivial"]; samples += (rep["samples"] or [])[:1]
    parts["branch"] = {"states": a["distinct"], "transitions": a["generated"], "replayed": rep["traces"]}

    # (c) the birthday block search
    cfg, every = BDAY[tier]
    c = vlib.run_tlc(scratch, "Birthday.tla", cfg, tag="birthday", timeout=1200)
    vlib.require_tlc_ok(c, "Birthday")
    cases = c["other"].get("CASE", [])
    if not cases:
        raise vlib.Broken("Birthday.tla exported no cases")
    t3 = scratch.path("cases.ndjson")
    with open(t3, "w") as f:
        f.write("\n".join(cases) + "\n")
    vlib.run_driver(drv, ["-in", t3, "-out", report, "-spec", "recovery-birthday", "-prop", prop, "-every", every,
                          "-offset", seed % every])
    rep = vlib.load_report(report)
    res.add_report(rep)
    states += c["distinct"]; transitions += c["generated"]; traces += rep["traces"]; evals += rep["checks"]
    nontriv += rep["distinct_nontrivial"]; samples += (rep["samples"] or [])[:1]
    parts["birthday"] = {"states": c["distinct"], "cases": len(cases), "replayed": rep["traces"]}

    # (b) usage patterns recovered by a real wallet
    for cfg, every in SCAN[tier]:
        t2 = scratch.path("scan.ndjson")
        b = vlib.run_tlc(scratch, "RecoveryScan.tla", cfg, out_traces=t2, tag="scan-" + cfg[:-4], timeout=2400)
        vlib.require_tlc_ok(b, cfg)
        vlib.run_driver(drv, ["-in", t2, "-out", report, "-spec", "recovery-scan", "-prop", prop, "-seed", seed,
                              "-every", every, "-offset", seed % every, "-workers", vlib.NCPU], timeout=7200)
        rep = vlib.load_report(report)
        res.add_report(rep)
        states += b["distinct"]; transitions += b["generated"]; traces += rep["traces"]; evals += rep["checks"]
        nontriv += rep["distinct_nontrivial"]; samples += (rep["samples"] or [])[:1]
        parts[cfg] = {"states": b["distinct"], "transitions": b["generated"], "behaviours": b["ntraces"], "replayed": rep["traces"]}

    res.coverage = {
        "states": states, "transitions": transitions, "traces_validated_against_impl": traces,
        "evaluations": evals, "distinct_nontrivial": nontriv, "samples": samples[:4], "parts": parts,
        "rule": "see explanation; non-trivial counts are summed over the three parts",
        "explanation": "(a) RecoveryBranch.tla: TLC explores the horizon bookkeeping for every set of <= 2 invalid child indices and checks that each expansion "
                       "covers W valid children beyond the next unfound index; every transition is replayed call-by-call on wallet.BranchRecoveryState. "
                       "(b) RecoveryScan.tla: TLC enumerates chains whose blocks pay and spend default-account addresses under the property's look-ahead "
                       "condition (windows 1-3, several payments per block, jumps of W-1, spends of recovered outputs, interrupted/resumed recovery, "
                       "locked/unlocked, the 2000-block batch boundary in thorough); a wallet restored from the seed with that window is started against "
                       "the scripted backend (real chain.BlockFilterer) and must have discovered and marked every used address (addresses come from the "
                       "independent BIP32 oracle), hold next indices above the highest used ones, report the right unspent set and balance and have "
                       "recorded every paying/spending transaction in its block. (c) Birthday.tla: the bisection transcribed; TLC proves termination and "
                       "that the start block is never later than the first block that could pay the wallet for all generated timestamp sequences and "
                       "birthdays; every case is run through the real locateBirthdayBlock (verif hook) and the heights compared.",
    }
    res.assumptions = [
        "block timestamps are non-decreasing (as the property states) and may lag real time by at most two hours",
        "invalid BIP32 children cannot be produced through real derivation (probability 2^-127); they are bound at the exported BranchRecoveryState API",
        "the scripted backend's FilterBlocks runs the real chain.BlockFilterer over blocks holding the generated transactions",
    ]
    return res.finish()
