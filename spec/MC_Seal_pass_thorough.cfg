\* C17 thorough, passphrase-key cases: every ordered (creator, candidate) pair of 8 passphrases
\* (exact, prefix, suffix, case flip of the first / last letter, one inner character changed, trailing blank, empty), 3 scrypt
\* parameter sets, Zero/DeriveKey/Restart in every key state, Marshal, Unmarshal of every length 0..96,
\* and for the creator "Passw0rd" every single-bit alteration of the stored salt and digest followed by a restart.
CONSTANTS
  Mode = "pass"
  Keys = {1}
  PtLens = {0}
  MaxFlips = 1
  Passphrases = {"Passw0rd", "Passw0r", "Passw0rd!", "passw0rd", "Passw0rD", "Passw0rd ", "Pa5sw0rd", ""}
  BlobFlipPws = {"Passw0rd"}
  ParamSets <- ParamSetsStd
  RandomCases = 0
  LongLens <- LongLensStd
  MaxHist = 12
INIT Init
NEXT Next
VIEW View
INVARIANT Inv
ACTION_CONSTRAINT EmitStep
CHECK_DEADLOCK FALSE
