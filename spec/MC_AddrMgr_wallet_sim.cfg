\* random walks of the wallet-level stage (C08 / C03 / C05): histories in which the order of operations
\* matters (an address issued while locked, then a rename, then an unlock) that transition coverage does not give
CONSTANTS
  Scopes = {"bip84"}
  MaxIdx = 3
  MaxAccts = 3
  PWs = {"p1", "p2"}
  PubPWs = {"pub1", "pub2"}
  Names = {"alice", "bob"}
  XNames = {"xacct"}
  ImpIds = {"p1"}
  MaxSync = 0
  Outcomes = {"commit", "rollback"}
  Acts = {"NextAddr", "Lookup", "NewAccount", "ImportXpub", "Import", "Rename", "Unlock", "Lock", "ChangeBoth", "Restart"}
  NoRollback = {"NextAddr", "NewAccount", "Rename", "Import"}
  MaxHist = 26
  FullHist = TRUE
INIT Init
NEXT Next
INVARIANT Inv EmitFull
CHECK_DEADLOCK FALSE
