\* long random walks with every action, larger graphs, expectations recorded at every step
CONSTANTS
  GraphIds = {1,2,3,4,5,6,7,8,10,11,12}
  MaxTip = 5
  Mat = 2
  LeaseIds = {1,2}
  MaxNow = 4
  MaxHist = 24
  PathView = FALSE
  FullHist = TRUE
INIT Init
NEXT Next
INVARIANT Inv EmitFull
CHECK_DEADLOCK FALSE
