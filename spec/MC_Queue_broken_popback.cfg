\* C18 non-vacuity: overflow popped from the back; TLC MUST report a violation of InOrder/Conservation.
\* Constants: N = 4 items (the producer sends 1..N, so every burst length up to N), buffer sizes Bs = {0, 1, 2}
\* (B is chosen in Init: all sizes are explored in one run); fault switch set: PopBack
\* (all switches FALSE = the code as it is).
\* No state constraint: N bounds the state space, so the liveness check is sound.
SPECIFICATION SpecSlow
CONSTANTS
  N = 4
  Bs = {0, 1, 2}
  PopBack = TRUE
  NoDefault = FALSE
  WeakHandoff = FALSE
  DropWhenFull = FALSE
  NoQuit = FALSE
INVARIANTS TypeOK InOrder Conservation HandoffOnlyWhenEmpty
PROPERTIES NoOvertake ProducerCompletes StopTerminates
CHECK_DEADLOCK FALSE
