\* C12 quick: lease actions with two identifiers and a clock, on graphs with a
\* chain, a conflict pair and a coinbase.
CONSTANTS
  GraphIds = {1,4}
  MaxTip = 2
  Mat = 2
  LeaseIds = {1,2}
  MaxNow = 2
  MaxHist = 40
  PathView = FALSE
  FullHist = FALSE
INIT Init
NEXT NextCore
VIEW View
INVARIANT Inv
PROPERTY ReorgSemantics ConfirmSemantics LeaseSemantics
ACTION_CONSTRAINT EmitStep
CHECK_DEADLOCK FALSE
