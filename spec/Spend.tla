------------------------------- MODULE Spend -------------------------------
(***************************************************************************)
(* Spending from the wallet (C06) and what a broadcast attempt leaves      *)
(* behind (C20).                                                           *)
(*                                                                         *)
(* Coins: a static universe of receipts (account, key scope, value,        *)
(* coinbase flag) plus one change coin per created transaction.  The state *)
(* records for every coin whether and where it is confirmed, which created *)
(* transaction spends it, in-memory outpoint locks and leases; for every   *)
(* created transaction its inputs and status.                              *)
(*                                                                         *)
(* Eligible(acct, scope, minconf) is the property's six-filter conjunction.*)
(* Automatic selection is explored with the deterministic largest-first    *)
(* strategy and request amounts that need exactly the k largest eligible   *)
(* coins (the driver derives the amount from the prescription, with a      *)
(* margin far above any fee), so the specification predicts the input set  *)
(* exactly; the random strategy is explored with dry runs, whose inputs    *)
(* only have to lie inside Eligible.  Explicit selections range over all   *)
(* subsets of received coins, eligible or not.                             *)
(*                                                                         *)
(* Every broadcast carries the backend's answer class: accepted, already   *)
(* in the mempool (stays recorded, counted once), rejected, or a failing   *)
(* notification subscription at the first (change address, during          *)
(* creation) or second (hand-over, after recording) call.                  *)
(***************************************************************************)
EXTENDS Integers, Sequences, FiniteSets, TLC, Json, IOUtils

CONSTANTS
    NBase,      \* base coins are 1..NBase (attributes in BaseAttr)
    MaxSends,   \* created transactions; the change coin of send i is NBase + i, its self-payment coin (SendSelf) NBase + MaxSends + i
    MaxTip,     \* blocks mined during a behaviour
    Mat,        \* coinbase maturity (the driver uses the same value)
    Answers,    \* subset of {"accepted","inmempool","rejected","notifyfail1","notifyfail2","badlabel"} (badlabel: the request carries a label the store refuses)
    Acts,       \* actions explored
    LockCoins,  \* coins on which lock / lease actions are explored
    MaxHist,
    FullHist

(* account, key scope, value (units of 1,000,000 sat), coinbase *)
BaseAttr(c) ==
  CASE c = 1 -> [acct |-> 0, scope |-> "bip84", val |-> 8, cb |-> FALSE]
    [] c = 2 -> [acct |-> 0, scope |-> "bip86", val |-> 4, cb |-> FALSE]     \* with coin 3: two taproot coins of one account
    [] c = 3 -> [acct |-> 0, scope |-> "bip86", val |-> 2, cb |-> FALSE]
    [] c = 4 -> [acct |-> 1, scope |-> "bip84", val |-> 1, cb |-> FALSE]
    [] c = 5 -> [acct |-> 0, scope |-> "bip84", val |-> 16, cb |-> TRUE]
    [] c = 6 -> [acct |-> 0, scope |-> "bip86", val |-> 32, cb |-> FALSE]
    [] c = 7 -> [acct |-> 0, scope |-> "bip49", val |-> 64, cb |-> FALSE]     \* nested pay-to-witness-key-hash
    [] c = 8 -> [acct |-> 0, scope |-> "bip44", val |-> 128, cb |-> FALSE]    \* legacy pay-to-pubkey-hash
    [] c = 9 -> [acct |-> 2, scope |-> "bip84", val |-> 256, cb |-> FALSE]    \* paid to a singly imported private key ("account" 2 = the imported-keys account)
    [] c = 10 -> [acct |-> 2, scope |-> "bip44", val |-> 512, cb |-> FALSE]   \* a second imported key, in another key scope: one imported-keys account, two scopes

\* key scopes requests are made for: those of the base coins in play
Scopes == {BaseAttr(c).scope : c \in 1..NBase}
Accts  == {0, 1}                                          \* accounts every kind of request is made from
ObsAccts == Accts \cup {BaseAttr(c).acct : c \in 1..NBase} \* accounts whose balances are observed
ReqAccts == ObsAccts                                      \* Send / SendExplicit / DryRun are also made from the imported-keys account (2) when it has coins
ChangeAcct(a) == IF a = 2 THEN 0 ELSE a                   \* the wallet has no change branch for imported keys: change goes to account 0 of the request's scope

VARIABLES
    st,       \* [Coin -> -1 (not received) | 0 (unconfirmed) | 1..MaxTip (confirming height)]
    spentBy,  \* [Coin -> 0..MaxSends]  created transaction spending it (0 = none)
    sends,    \* Seq of [acct, scope, ins, change, status]; status 0 (unconfirmed) | height | -1 (forgotten)
    tip,
    locked,   \* coins locked in memory (LockOutpoint)
    leased,   \* [Coin -> 0..2] lease holder
    hist

state == <<st, spentBy, sends, tip, locked, leased>>
vars  == <<st, spentBy, sends, tip, locked, leased, hist>>

Base  == 1..NBase
Coin  == 1..(NBase + 2 * MaxSends)
IsChange(c) == c > NBase                 \* created by a wallet transaction: its change, or a payment to the wallet itself
IsSelf(c)   == c > NBase + MaxSends      \* ... the latter
SendOf(c)   == IF IsSelf(c) THEN c - NBase - MaxSends ELSE c - NBase
\* attributes of a coin; change goes to the internal branch of the request's scope and account
\* a self-payment goes to an external address of account 0 in the bip84 scope
Attr(c) == IF IsSelf(c)
           THEN [acct |-> 0, scope |-> "bip84", val |-> 0, cb |-> FALSE]
           ELSE IF IsChange(c)
           THEN [acct |-> ChangeAcct(sends[c - NBase].acct), scope |-> sends[c - NBase].scope, val |-> 0, cb |-> FALSE]
           ELSE BaseAttr(c)
Exists(c) == IF IsSelf(c) THEN SendOf(c) <= Len(sends) /\ sends[SendOf(c)].self /\ st[c] # -1
             ELSE IF IsChange(c) THEN c - NBase <= Len(sends) /\ sends[c - NBase].change /\ st[c] # -1
             ELSE st[c] # -1
Confs(c) == IF st[c] <= 0 THEN 0 ELSE tip - st[c] + 1

(* C06: currently credited to the requested account (and key scope), unspent *)
(* by any known transaction, neither locked nor leased, confirmed at least   *)
(* minconf times, coinbase mature.                                           *)
Eligible(acct, scope, mc) ==
    {c \in Coin : /\ Exists(c)
                  /\ Attr(c).acct = acct /\ Attr(c).scope = scope
                  /\ spentBy[c] = 0
                  /\ c \notin locked /\ leased[c] = 0
                  /\ Confs(c) >= mc
                  /\ Attr(c).cb => Confs(c) >= Mat}

\* value order: base coins by val, change coins below every base coin
Bigger(a, b) == IF IsChange(a) THEN FALSE ELSE IF IsChange(b) THEN TRUE ELSE BaseAttr(a).val > BaseAttr(b).val
\* the k largest base coins of a set (defined when it has at least k base coins)
TopK(S, k) == {c \in S : ~IsChange(c) /\ Cardinality({d \in S : Bigger(d, c)}) < k}
NumBase(S) == Cardinality({c \in S : ~IsChange(c)})

\* what the wallet shows as spendable (ListUnspent, minconf 0)
Spendable == {c \in Coin : Exists(c) /\ spentBy[c] = 0 /\ leased[c] = 0 /\ c \notin locked
                           /\ (Attr(c).cb => Confs(c) >= Mat)}
\* what counts for the balance at minconf mc (locks in memory do not matter, leases do)
Counts(mc) == {c \in Coin : Exists(c) /\ spentBy[c] = 0 /\ leased[c] = 0
                            /\ (IF st[c] = 0 THEN mc = 0 ELSE Confs(c) >= mc)
                            /\ (Attr(c).cb => Confs(c) >= Mat)}

\* per account (any key scope): what CalculateAccountBalances reports - everything unspent and unleased,
\* the immature coinbase part of it, and the part confirmed mc times and not immature
AcctCoins(a)     == {c \in Coin : Exists(c) /\ spentBy[c] = 0 /\ leased[c] = 0 /\ Attr(c).acct = a}
Immature(c)      == Attr(c).cb /\ Confs(c) < Mat
AcctBal(a) == [ total |-> AcctCoins(a),
                immature |-> {c \in AcctCoins(a) : Immature(c)},
                spendable |-> [mc \in 0..(Mat+1) |-> {c \in AcctCoins(a) : ~Immature(c) /\ Confs(c) >= mc}] ]

\* per key scope and account: what AccountBalances(scope, mc) reports
ScopeBal(sc, a, mc) == {c \in Coin : Exists(c) /\ spentBy[c] = 0 /\ leased[c] = 0 /\ Attr(c).scope = sc /\ Attr(c).acct = a
                                      /\ ~Immature(c) /\ Confs(c) >= mc}

Obs == [ tip |-> tip,
         acctBal |-> [a \in ObsAccts |-> AcctBal(a)],
         scopeBal |-> [sc \in Scopes |-> [a \in ObsAccts |-> [mc \in 0..1 |-> ScopeBal(sc, a, mc)]]],
         st |-> st, spentBy |-> spentBy,
         spendable |-> Spendable,
         bal |-> [mc \in 0..(Mat+1) |-> Counts(mc)],
         sends |-> [i \in 1..Len(sends) |-> [status |-> sends[i].status, ins |-> sends[i].ins, change |-> sends[i].change, self |-> sends[i].self]],
         unconfSends |-> {i \in 1..Len(sends) : sends[i].status = 0},
         locked |-> locked, leased |-> leased ]

Step(op, a, ret) ==
    hist' = Append(hist, [op |-> op, a |-> a, ret |-> ret, exp |-> IF FullHist THEN Obs' ELSE <<>>])

On(x) == x \in Acts
----------------------------------------------------------------------------
Init ==
    /\ st = [c \in Coin |-> -1]
    /\ spentBy = [c \in Coin |-> 0]
    /\ sends = <<>>
    /\ tip = 0
    /\ locked = {} /\ leased = [c \in Coin |-> 0]
    /\ hist = <<>>

(* somebody pays the wallet (unconfirmed) *)
Receive(c) ==
    /\ c \in Base /\ st[c] = -1 /\ ~BaseAttr(c).cb
    /\ st' = [st EXCEPT ![c] = 0]
    /\ UNCHANGED <<spentBy, sends, tip, locked, leased>>
    /\ Step("Receive", [c |-> c], "ok")

(* a block confirms everything unconfirmed; optionally its coinbase pays the wallet *)
Mine(cbs) ==
    /\ tip < MaxTip
    /\ cbs \subseteq {c \in Base : BaseAttr(c).cb /\ st[c] = -1} /\ Cardinality(cbs) <= 1
    /\ tip' = tip + 1
    /\ st' = [c \in Coin |-> IF st[c] = 0 \/ c \in cbs THEN tip + 1 ELSE st[c]]
    /\ sends' = [i \in 1..Len(sends) |-> IF sends[i].status = 0 THEN [sends[i] EXCEPT !.status = tip + 1] ELSE sends[i]]
    /\ UNCHANGED <<spentBy, locked, leased>>
    /\ Step("Mine", [cb |-> cbs], "ok")

Lock(c) ==
    /\ Exists(c) /\ c \notin locked
    /\ locked' = locked \cup {c}
    /\ UNCHANGED <<st, spentBy, sends, tip, leased>>
    /\ Step("Lock", [c |-> c], "ok")
Unlock(c) ==
    /\ c \in locked
    /\ locked' = locked \ {c}
    /\ UNCHANGED <<st, spentBy, sends, tip, leased>>
    /\ Step("Unlock", [c |-> c], "ok")
Lease(c, id) ==
    /\ Exists(c) /\ spentBy[c] = 0 /\ leased[c] \in {0, id}
    /\ leased' = [leased EXCEPT ![c] = id]
    /\ UNCHANGED <<st, spentBy, sends, tip, locked>>
    /\ Step("Lease", [c |-> c, id |-> id], "ok")
Release(c, id) ==
    /\ leased[c] = id
    /\ leased' = [leased EXCEPT ![c] = 0]
    /\ UNCHANGED <<st, spentBy, sends, tip, locked>>
    /\ Step("Release", [c |-> c, id |-> id], "ok")

(* the effect of a created transaction that stays recorded *)
RecordS(acct, scope, ins, self) ==
    LET i == Len(sends) + 1 IN
    /\ sends' = Append(sends, [acct |-> acct, scope |-> scope, ins |-> ins, change |-> TRUE, self |-> self, status |-> 0])
    /\ spentBy' = [c \in Coin |-> IF c \in ins THEN i ELSE spentBy[c]]
    /\ st' = [st EXCEPT ![NBase + i] = 0, ![NBase + MaxSends + i] = IF self THEN 0 ELSE -1]
Record(acct, scope, ins) == RecordS(acct, scope, ins, FALSE)

(* A transaction that pays a foreign party, the wallet itself (a fresh       *)
(* external address of account 0) and change: two wallet credits, one of     *)
(* them change, in an order the wallet randomises.                            *)
SendSelf(acct, scope, mc) ==
    /\ Len(sends) < MaxSends
    /\ LET E == Eligible(acct, scope, mc) IN
       /\ NumBase(E) >= 1
       /\ RecordS(acct, scope, TopK(E, 1), TRUE)
       /\ UNCHANGED <<tip, locked, leased>>
       /\ Step("SendSelf", [acct |-> acct, scope |-> scope, mc |-> mc, n |-> Len(sends) + 1, ins |-> TopK(E, 1), elig |-> E], "ok")

(* Send with automatic (largest-first) selection of exactly the k largest    *)
(* eligible coins; k = number of eligible base coins + 1 asks for more than  *)
(* is there and must be refused.                                             *)
Send(acct, scope, mc, k, ans) ==
    /\ Len(sends) < MaxSends
    /\ LET E == Eligible(acct, scope, mc)
           a == [acct |-> acct, scope |-> scope, mc |-> mc, k |-> k, ans |-> ans, n |-> Len(sends) + 1]
       IN  /\ k \in 1..(NumBase(E) + 1)
           /\ IF k > NumBase(E)
              THEN /\ ans = "accepted"      \* nothing reaches the backend
                   /\ UNCHANGED <<st, spentBy, sends>>
                   /\ UNCHANGED <<tip, locked, leased>>
                   /\ Step("Send", [a EXCEPT !.k = k] @@ [ins |-> {}, elig |-> E], "insufficient")
              ELSE IF ans \in {"accepted", "inmempool"}   \* "already in the mempool" counts as delivered
              THEN /\ Record(acct, scope, TopK(E, k))
                   /\ UNCHANGED <<tip, locked, leased>>
                   /\ Step("Send", a @@ [ins |-> TopK(E, k), elig |-> E], "ok")
              ELSE /\ UNCHANGED <<st, spentBy, sends>>   \* C20: a failed broadcast leaves no trace
                   /\ UNCHANGED <<tip, locked, leased>>
                   /\ Step("Send", a @@ [ins |-> TopK(E, k), elig |-> E], "error")

(* explicitly selected inputs: any subset of the coins that exist; refused   *)
(* unless every one is eligible                                              *)
SendExplicit(acct, scope, mc, S) ==
    /\ Len(sends) < MaxSends
    /\ S # {} /\ \A c \in S : Exists(c)       \* change coins too: chains of unconfirmed spends
    /\ LET E == Eligible(acct, scope, mc)
           a == [acct |-> acct, scope |-> scope, mc |-> mc, sel |-> S, n |-> Len(sends) + 1, elig |-> E]
       IN  IF S \subseteq E
           THEN /\ Record(acct, scope, S)
                /\ UNCHANGED <<tip, locked, leased>>
                /\ Step("SendExplicit", a, "ok")
           ELSE /\ UNCHANGED <<st, spentBy, sends, tip, locked, leased>>
                /\ Step("SendExplicit", a, "refused")

(* the caller lists the same (eligible) output twice: "no output is used     *)
(* twice in one transaction" - the request is for more than the output is    *)
(* worth once, so the only answers the property allows are refusals          *)
SendDup(acct, scope, mc, c) ==
    /\ Len(sends) < MaxSends
    /\ c \in Eligible(acct, scope, mc)
    /\ UNCHANGED <<st, spentBy, sends, tip, locked, leased>>
    /\ Step("SendDup", [acct |-> acct, scope |-> scope, mc |-> mc, c |-> c, n |-> Len(sends) + 1,
                        elig |-> Eligible(acct, scope, mc)], "refused")

(* PSBT funding with inputs chosen by the caller (Wallet.FundPsbt): nothing  *)
(* is recorded or broadcast; the selection is refused unless every input is  *)
(* eligible for the request.                                                 *)
FundOwn(acct, scope, mc, S) ==
    /\ S # {} /\ \A c \in S : Exists(c) /\ ~IsChange(c)
    /\ LET E == Eligible(acct, scope, mc) IN
       /\ UNCHANGED <<st, spentBy, sends, tip, locked, leased>>
       /\ Step("FundOwn", [acct |-> acct, scope |-> scope, mc |-> mc, sel |-> S, elig |-> E],
               IF S \subseteq E THEN "ok" ELSE "refused")

(* dry run with the random strategy: inputs must lie inside Eligible; nothing changes *)
DryRun(acct, scope, mc) ==
    /\ LET E == Eligible(acct, scope, mc) IN
       /\ E # {}
       /\ UNCHANGED <<st, spentBy, sends, tip, locked, leased>>
       /\ Step("DryRun", [acct |-> acct, scope |-> scope, mc |-> mc, elig |-> E], "ok")

(* A transaction is created (signed, neither recorded nor published) whose   *)
(* change goes to another key scope than the coins come from                 *)
(* (CreateSimpleTx + WithCustomChangeScope).  In the driver's wallet account  *)
(* 1 of the legacy scope is an imported, watch-only account, so this also     *)
(* asks whether "needs no signature" is decided by where the coins are.       *)
AllScopes == {"bip84", "bip86", "bip49", "bip44"}
CreateCS(acct, scope, mc, cscope) ==
    /\ cscope # scope
    /\ LET E == Eligible(acct, scope, mc) IN
       /\ E # {}
       /\ UNCHANGED <<st, spentBy, sends, tip, locked, leased>>
       /\ Step("CreateCS", [acct |-> acct, scope |-> scope, mc |-> mc, cscope |-> cscope, elig |-> E], "ok")

(* stop and start the wallet: every still-unconfirmed created transaction is *)
(* offered to the backend again, parents before children                     *)
Restart ==
    /\ locked' = {}                         \* outpoint locks live in memory only
    /\ UNCHANGED <<st, spentBy, sends, tip, leased>>
    /\ Step("Restart", <<>>, "ok")

(* Restart during which the backend rejects the re-broadcast of the still     *)
(* unconfirmed created transaction i for a reason the wallet has no special   *)
(* case for: that transaction and every unconfirmed transaction spending its  *)
(* change are forgotten (inputs spendable again, change gone); every other    *)
(* unconfirmed created transaction is still offered.                          *)
RECURSIVE Doomed(_)
Doomed(F) ==
    LET more == {j \in 1..Len(sends) : sends[j].status = 0 /\ j \notin F
                                         /\ \E k \in F : (NBase + k) \in sends[j].ins \/ (NBase + MaxSends + k) \in sends[j].ins}
    IN  IF more = {} THEN F ELSE Doomed(F \cup more)
Forget(i, keepLocks, name) ==
    /\ i \in 1..Len(sends) /\ sends[i].status = 0
    /\ LET F == Doomed({i}) IN
       /\ sends' = [k \in 1..Len(sends) |-> IF k \in F THEN [sends[k] EXCEPT !.status = -1] ELSE sends[k]]
       /\ spentBy' = [c \in Coin |-> IF spentBy[c] \in F THEN 0 ELSE spentBy[c]]
       /\ st' = [c \in Coin |-> IF IsChange(c) /\ SendOf(c) \in F THEN -1 ELSE st[c]]
       /\ locked' = IF keepLocks THEN locked ELSE {}
       /\ leased' = [c \in Coin |-> IF IsChange(c) /\ SendOf(c) \in F THEN 0 ELSE leased[c]]   \* a lease on an output that no longer exists is not listed
       /\ UNCHANGED tip
       /\ Step(name, [n |-> i, forgotten |-> F], "ok")
RestartRej(i) == Forget(i, FALSE, "RestartRej")

(* The backend connection is re-established while the wallet keeps running    *)
(* (ClientConnected): the wallet resynchronises and offers every unconfirmed  *)
(* transaction again.  Nothing the wallet holds in memory is lost: the user's *)
(* outpoint locks stay - also the lock on a coin that a transaction forgotten *)
(* by a rejected re-broadcast had spent (a lock belongs to the user, not to   *)
(* the transaction: the coin is unspent again and still out of reach).        *)
Resync ==
    /\ UNCHANGED <<st, spentBy, sends, tip, locked, leased>>
    /\ Step("Resync", <<>>, "ok")
ResyncRej(i) == Forget(i, TRUE, "ResyncRej")

Next ==
    \/ On("Receive") /\ \E c \in Base : Receive(c)
    \/ On("Mine") /\ \E cbs \in SUBSET Base : Mine(cbs)
    \/ On("Lock") /\ \E c \in LockCoins : Lock(c) \/ Unlock(c)
    \/ On("Lease") /\ \E c \in LockCoins, id \in 1..2 : Lease(c, id) \/ Release(c, id)
    \/ On("Send") /\ \E acct \in ReqAccts, scope \in Scopes, mc \in 0..2, k \in 1..3, ans \in Answers : Send(acct, scope, mc, k, ans)
    \/ On("SendExplicit") /\ \E acct \in ReqAccts, scope \in Scopes, mc \in 0..1, S \in SUBSET Coin : Cardinality(S) <= 2 /\ SendExplicit(acct, scope, mc, S)
    \/ On("SendExplicit") /\ \E acct \in Accts, scope \in Scopes, c \in Base : SendDup(acct, scope, 0, c)
    \/ On("SendSelf") /\ \E acct \in Accts, scope \in Scopes, mc \in 0..1 : SendSelf(acct, scope, mc)
    \/ On("FundOwn") /\ \E acct \in Accts, scope \in Scopes, c \in Base : FundOwn(acct, scope, 1, {c})
    \/ On("FundOwn") /\ \E acct \in Accts, scope \in Scopes, c, d \in Base :
           /\ c < d /\ BaseAttr(c).acct = acct /\ BaseAttr(d).acct = acct
           /\ BaseAttr(c).scope = scope /\ BaseAttr(d).scope = scope
           /\ FundOwn(acct, scope, 0, {c, d})      \* two inputs of one account and scope: funded, finalised, verified
    \/ On("DryRun") /\ \E acct \in ReqAccts, scope \in Scopes, mc \in 0..2 : DryRun(acct, scope, mc)
    \/ On("DryRun") /\ \E acct \in Accts, scope \in Scopes, cscope \in AllScopes : CreateCS(acct, scope, 0, cscope)
    \/ On("Restart") /\ Restart
    \/ On("RestartRej") /\ \E i \in 1..MaxSends : RestartRej(i)
    \/ On("Resync") /\ Resync
    \/ On("ResyncRej") /\ \E i \in 1..MaxSends : ResyncRej(i)

Spec == Init /\ [][Next]_vars
----------------------------------------------------------------------------
TypeOK ==
    /\ tip \in 0..MaxTip /\ Len(sends) <= MaxSends
    /\ \A c \in Coin : spentBy[c] \in 0..Len(sends)

(* C06 on the design: no coin is ever spent by two created transactions, a   *)
(* created transaction only spends coins that were eligible for its request, *)
(* and spent coins are never eligible again.                                 *)
Live(i) == sends[i].status >= 0          \* not forgotten after a rejected re-broadcast
NoDoubleSpend ==
    \A i, j \in 1..Len(sends) : (i # j /\ Live(i) /\ Live(j)) => sends[i].ins \cap sends[j].ins = {}
SpentNotEligible ==
    \A c \in Coin : spentBy[c] # 0 =>
        \A acct \in ReqAccts, scope \in Scopes, mc \in 0..2 : c \notin Eligible(acct, scope, mc)
InputsWereOwn ==
    \A i \in 1..Len(sends) : Live(i) => \A c \in sends[i].ins :
        Attr(c).acct = sends[i].acct /\ Attr(c).scope = sends[i].scope /\ spentBy[c] = i
LockedLeasedNotEligible ==
    \A c \in Coin : (c \in locked \/ leased[c] # 0) =>
        \A acct \in ReqAccts, scope \in Scopes, mc \in 0..2 : c \notin Eligible(acct, scope, mc)
Inv == TypeOK /\ NoDoubleSpend /\ SpentNotEligible /\ InputsWereOwn /\ LockedLeasedNotEligible

(* C20 on the design: a broadcast that fails changes nothing *)
FailedBroadcastNoTrace ==
    [][(hist' # hist /\ hist'[Len(hist')].ret \in {"error", "refused", "insufficient"})
         => UNCHANGED <<st, spentBy, sends>>]_vars
----------------------------------------------------------------------------
View      == state
\* Emission may be sampled inside TLC (the check sets VERIF_EMIT_EVERY / VERIF_EMIT_OFFSET): one behaviour per
\* EmitEvery generated transitions instead of one per transition - printing dominates the exploration time.
EmitEvery  == IF "VERIF_EMIT_EVERY" \in DOMAIN IOEnv THEN atoi(IOEnv.VERIF_EMIT_EVERY) ELSE 1
EmitOffset == IF "VERIF_EMIT_OFFSET" \in DOMAIN IOEnv THEN atoi(IOEnv.VERIF_EMIT_OFFSET) ELSE 0
\* vacuity probe: with VERIF_NEVER_OP set this invariant is violated as soon as that operation is taken
NeverOp    == ("VERIF_NEVER_OP" \in DOMAIN IOEnv) => (hist = <<>> \/ hist[Len(hist)].op # IOEnv.VERIF_NEVER_OP)
Sampled    == EmitEvery <= 1 \/ TLCGet("generated") % EmitEvery = EmitOffset % EmitEvery
EmitStep  == Sampled => PrintT(<<"TRACE", ToJson([mat |-> Mat, nbase |-> NBase, maxsends |-> MaxSends, steps |-> hist', pre |-> Obs, exp |-> Obs'])>>)
EmitFull  == (Len(hist) >= MaxHist) => PrintT(<<"TRACE", ToJson([mat |-> Mat, nbase |-> NBase, maxsends |-> MaxSends, steps |-> hist])>>)
=============================================================================
