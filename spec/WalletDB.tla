------------------------------ MODULE WalletDB ------------------------------
(***************************************************************************)
(* Specification of btcwallet's database layer as the wallet sees it:      *)
(* walletdb.DB / ReadTx / ReadWriteTx / ReadWriteBucket / ReadWriteCursor  *)
(* implemented by walletdb/bdb over bbolt.  Serves C11.                    *)
(*                                                                         *)
(* State: the committed tree of buckets, at most one writer with its       *)
(* working copy, readers holding the snapshot taken when they began, one   *)
(* cursor.  One action per public operation; every read-like step records  *)
(* in `hist` the value / error class the specification expects, and Obs    *)
(* is what a complete dump of the database must show through a fresh read  *)
(* transaction and through every open transaction.  The conformance driver *)
(* (harness/cmd/replay-walletdb) replays TLC-generated behaviours on the   *)
(* real bdb driver and compares every one of these expectations.           *)
(*                                                                         *)
(* Byte strings (keys, bucket names, values) are sequences of 0..255; the  *)
(* order on keys is bytes.Compare (Less below).                            *)
(*                                                                         *)
(* Deliberate quirks of the code that are modelled, not idealised:         *)
(*  - the bdb driver checks writability first, then the key, then the kind *)
(*    of the existing entry (bbolt's order of checks);                     *)
(*  - Get of a key that names a nested bucket, of an absent key and of the *)
(*    empty key all return nil; an empty value comes back empty, not nil;  *)
(*  - Delete of an absent (or empty) key succeeds; Delete / Put on a key   *)
(*    that names a bucket, CreateBucket[IfNotExists] / DeleteNestedBucket  *)
(*    on a key that holds a value give ErrIncompatibleValue;               *)
(*  - CreateTopLevelBucket is create-if-not-exists;                        *)
(*  - a cursor that ran off either end stays on the last / first entry     *)
(*    (Next at the end returns nil and a following Prev returns the entry  *)
(*    before the last one); Seek past the end parks it behind the end;     *)
(*  - bucket.NextSequence / SetSequence do not pass through convertErr,    *)
(*    the interface names no error for them: in a read-only transaction    *)
(*    the expectation is the class "rejected" (any error, nothing changed);*)
(*  - DeleteNestedBucket / DeleteTopLevelBucket with the empty name on a   *)
(*    bucket without entries: also "rejected" (see the action).            *)
(* Left out on purpose (the interface does not fix the outcome):           *)
(*  - moving a cursor after any successful mutation of its transaction,    *)
(*    including after cursor.Delete (bbolt issue 620: Next may skip an     *)
(*    entry) -- the cursor has to be repositioned by First/Last/Seek;      *)
(*  - cursor.Delete when the last move returned nil;                       *)
(*  - Put with a nil (as opposed to empty) value.                          *)
(***************************************************************************)
EXTENDS Integers, Sequences, FiniteSets, TLC, Json

CONSTANTS
    Keys,       \* byte strings used as keys and nested bucket names (may contain <<>>)
    Vals,       \* byte strings used as values
    Tops,       \* names of top-level buckets (non-empty byte strings)
    Readers,    \* identifiers of read transactions, subset of {"r1","r2"}
    MaxDepth,   \* deepest bucket path (1 = top-level buckets only)
    MaxSeq,     \* bound on bucket sequence numbers
    MaxWTx,     \* write transactions begun per behaviour
    MaxRTx,     \* read transactions begun per behaviour
    MaxOps,     \* tree-changing operations per write transaction
    MaxHist,    \* bound on the recorded history (simulation)
    FullHist    \* TRUE: record the expected observation at every step

VARIABLES
    disk,   \* committed tree
    wr,     \* the writer: [open, mode, tree, nops]
    rd,     \* [Readers -> [open, mode, snap]]
    cur,    \* the cursor: [tx, p, idx, ok]
    nw, nr, \* transactions begun so far
    hist    \* recorded steps

state == <<disk, wr, rd, cur, nw, nr>>
vars  == <<disk, wr, rd, cur, nw, nr, hist>>

----------------------------------------------------------------------------
(* Byte strings and their order *)
RECURSIVE Less(_, _)
Less(a, b) == IF a = <<>> THEN b # <<>>
              ELSE IF b = <<>> THEN FALSE
              ELSE IF a[1] # b[1] THEN a[1] < b[1]
              ELSE Less(Tail(a), Tail(b))
Leq(a, b) == a = b \/ Less(a, b)

MinKey(S) == CHOOSE x \in S : \A y \in S \ {x} : Less(x, y)
RECURSIVE SortKeys(_)
SortKeys(S) == IF S = {} THEN <<>> ELSE LET m == MinKey(S) IN <<m>> \o SortKeys(S \ {m})

NEKeys == Keys \ {<<>>}

----------------------------------------------------------------------------
(* Trees.  A tree is a function from the paths of its buckets (sequences   *)
(* of names, <<>> = the transaction's root) to [kv, seq]; a nested bucket  *)
(* named k of bucket p is the bucket at path Append(p, k).  Inside one     *)
(* bucket a name is absent, holds a value or names a nested bucket.        *)
Root   == <<>>
EmptyB == [kv |-> <<>>, seq |-> 0]
Names(p) == IF p = Root THEN Tops ELSE NEKeys
InitTree == [p \in {Root} \cup {<<t>> : t \in Tops} |-> EmptyB]

IsPrefix(p, q) == Len(p) <= Len(q) /\ SubSeq(q, 1, Len(p)) = p
SubNames(T, p) == {k \in Names(p) : Append(p, k) \in DOMAIN T}
Kind(T, p, k) == IF k = <<>> THEN "empty"
                 ELSE IF Append(p, k) \in DOMAIN T THEN "bucket"
                 ELSE IF k \in DOMAIN T[p].kv THEN "value"
                 ELSE "absent"
Ents(T, p) == SortKeys(DOMAIN T[p].kv \cup SubNames(T, p))
\* what iteration returns for entry k: nested buckets come with a nil value
Ent(T, p, k) == IF Append(p, k) \in DOMAIN T THEN [c |-> "kb", k |-> k]
                ELSE [c |-> "kv", k |-> k, v |-> T[p].kv[k]]

SetB(T, p, b)   == [q \in DOMAIN T \cup {p} |-> IF q = p THEN b ELSE T[q]]
PutKV(T, p, k, v) == SetB(T, p, [T[p] EXCEPT !.kv =
                        [x \in DOMAIN T[p].kv \cup {k} |-> IF x = k THEN v ELSE T[p].kv[x]]])
DelKV(T, p, k)  == SetB(T, p, [T[p] EXCEPT !.kv = [x \in DOMAIN T[p].kv \ {k} |-> T[p].kv[x]]])
SetSeq(T, p, n) == SetB(T, p, [T[p] EXCEPT !.seq = n])
DropSub(T, p)   == [q \in {r \in DOMAIN T : ~IsPrefix(p, r)} |-> T[q]]

WellFormed(T) ==
    /\ Root \in DOMAIN T /\ T[Root] = EmptyB
    /\ \A p \in DOMAIN T :
         /\ Len(p) <= MaxDepth
         /\ p # Root => SubSeq(p, 1, Len(p) - 1) \in DOMAIN T
         /\ p # Root => p[Len(p)] \in Names(SubSeq(p, 1, Len(p) - 1))
         /\ DOMAIN T[p].kv \subseteq NEKeys
         /\ \A k \in DOMAIN T[p].kv : T[p].kv[k] \in Vals /\ Append(p, k) \notin DOMAIN T
         /\ T[p].seq \in 0..MaxSeq

\* the complete content of a tree, as a dump of the database must show it
Dump(T) == {[p   |-> p,
             seq |-> T[p].seq,
             kv  |-> {[k |-> k, v |-> T[p].kv[k]] : k \in DOMAIN T[p].kv},
             sub |-> SubNames(T, p)] : p \in DOMAIN T}

----------------------------------------------------------------------------
(* Transactions *)
TxIds   == {"w"} \cup Readers
ClosedW == [open |-> FALSE, mode |-> "-", tree |-> InitTree, nops |-> 0]
ClosedR == [open |-> FALSE, mode |-> "-", snap |-> InitTree]
NoCur   == [tx |-> "-", p |-> Root, idx |-> 0, ok |-> FALSE]

IsOpen(x) == IF x = "w" THEN wr.open ELSE rd[x].open
TreeOf(x) == IF x = "w" THEN wr.tree ELSE rd[x].snap
OpenTxs   == {x \in TxIds : IsOpen(x)}
Buckets(x) == DOMAIN TreeOf(x) \ {Root}    \* buckets with the key/value interface

Obs == [ disk |-> Dump(disk),
         txs  |-> {[tx |-> x, dump |-> Dump(TreeOf(x))] : x \in OpenTxs} ]

Step(op, a, ret) ==
    hist' = Append(hist, [op |-> op, a |-> a, ret |-> ret,
                          exp |-> IF FullHist THEN Obs' ELSE <<>>])

Init ==
    /\ disk = InitTree
    /\ wr = ClosedW
    /\ rd = [r \in Readers |-> ClosedR]
    /\ cur = NoCur
    /\ nw = 0 /\ nr = 0
    /\ hist = <<>>

----------------------------------------------------------------------------
(* Beginning and ending transactions.  mode "manual" = db.BeginReadWriteTx *)
(* / BeginReadTx ... Commit / Rollback; mode "managed" = walletdb.Update / *)
(* walletdb.View, whose function ends with outcome nil, error or panic.    *)
(* bbolt serialises writers: a second writer would block, so it is never   *)
(* begun while one is open.                                                *)
BeginW(mode) ==
    /\ ~wr.open /\ nw < MaxWTx
    /\ wr' = [open |-> TRUE, mode |-> mode, tree |-> disk, nops |-> 0]
    /\ nw' = nw + 1
    /\ UNCHANGED <<disk, rd, cur, nr>>
    /\ Step(IF mode = "manual" THEN "BeginRW" ELSE "UpdateBegin", [tx |-> "w"], [c |-> "ok"])

DropCur(x) == IF cur.tx = x THEN NoCur ELSE cur

\* after the end of any transaction its handle answers ErrTxClosed; after the
\* end of the writer a next write transaction can begin and commit
EndRet(c, writer) == IF writer THEN [c |-> c, closed |-> "ErrTxClosed", next |-> "ok"]
                     ELSE [c |-> c, closed |-> "ErrTxClosed"]

Commit ==
    /\ wr.open /\ wr.mode = "manual"
    /\ disk' = wr.tree
    /\ wr' = ClosedW /\ cur' = DropCur("w")
    /\ UNCHANGED <<rd, nw, nr>>
    /\ Step("Commit", [tx |-> "w"], EndRet("ok", TRUE))

Rollback ==
    /\ wr.open /\ wr.mode = "manual"
    /\ wr' = ClosedW /\ cur' = DropCur("w")
    /\ UNCHANGED <<disk, rd, nw, nr>>
    /\ Step("Rollback", [tx |-> "w"], EndRet("ok", TRUE))

\* walletdb.Update returns: nil after committing, the function's own error
\* after rolling back; a panic propagates after rolling back.
UpdateEnd(outcome) ==
    /\ wr.open /\ wr.mode = "managed"
    /\ disk' = IF outcome = "nil" THEN wr.tree ELSE disk
    /\ wr' = ClosedW /\ cur' = DropCur("w")
    /\ UNCHANGED <<rd, nw, nr>>
    /\ Step("UpdateEnd", [tx |-> "w", outcome |-> outcome],
            EndRet(CASE outcome = "nil" -> "ok" [] outcome = "error" -> "fnerr" [] OTHER -> "panic", TRUE))

BeginR(r, mode) ==
    /\ ~rd[r].open /\ nr < MaxRTx
    /\ rd' = [rd EXCEPT ![r] = [open |-> TRUE, mode |-> mode, snap |-> disk]]
    /\ nr' = nr + 1
    /\ UNCHANGED <<disk, wr, cur, nw>>
    /\ Step(IF mode = "manual" THEN "BeginRO" ELSE "ViewBegin", [tx |-> r], [c |-> "ok"])

RollbackR(r) ==
    /\ rd[r].open /\ rd[r].mode = "manual"
    /\ rd' = [rd EXCEPT ![r] = ClosedR] /\ cur' = DropCur(r)
    /\ UNCHANGED <<disk, wr, nw, nr>>
    /\ Step("Rollback", [tx |-> r], EndRet("ok", FALSE))

ViewEnd(r, outcome) ==
    /\ rd[r].open /\ rd[r].mode = "managed"
    /\ rd' = [rd EXCEPT ![r] = ClosedR] /\ cur' = DropCur(r)
    /\ UNCHANGED <<disk, wr, nw, nr>>
    /\ Step("ViewEnd", [tx |-> r, outcome |-> outcome],
            EndRet(CASE outcome = "nil" -> "ok" [] outcome = "error" -> "fnerr" [] OTHER -> "panic", FALSE))

\* close the database file and open it again (needs every transaction closed)
Reopen ==
    /\ OpenTxs = {}
    /\ UNCHANGED state
    /\ Step("Reopen", [tx |-> "-"], [c |-> "ok"])

----------------------------------------------------------------------------
(* Mutations.  Attempted through any open transaction; a read-only one     *)
(* rejects them all before looking at the arguments.                       *)

\* the writer's tree becomes T2 (only a real change counts against MaxOps);
\* every successful mutation invalidates the writer's cursor
Mutate(x, op, a, ret, T2) ==
    /\ IF ret.c \in {"ok", "num"} /\ x = "w"
       THEN /\ T2 # wr.tree => wr.nops < MaxOps
            /\ wr' = [wr EXCEPT !.tree = T2, !.nops = IF T2 # wr.tree THEN @ + 1 ELSE @]
            /\ cur' = DropCur("w")
       ELSE UNCHANGED <<wr, cur>>
    /\ UNCHANGED <<disk, rd, nw, nr>>
    /\ Step(op, a, ret)

\* representative arguments for attempts through a read-only transaction
\* (the outcome does not depend on them)
RoKey  == MinKey(NEKeys)
RoVal  == MinKey(Vals)
KeyArgs(x) == IF x = "w" THEN Keys \cup {<<>>} ELSE {<<>>, RoKey}
ValArgs(x) == IF x = "w" THEN Vals ELSE {RoVal}

Put(x, p, k, v) ==
    /\ IsOpen(x) /\ p \in Buckets(x)
    /\ LET T == TreeOf(x)
           kind == Kind(T, p, k)
           c == IF x # "w" THEN "ErrTxNotWritable"
                ELSE IF kind = "empty" THEN "ErrKeyRequired"
                ELSE IF kind = "bucket" THEN "ErrIncompatibleValue"
                ELSE "ok"
       IN Mutate(x, "Put", [tx |-> x, p |-> p, k |-> k, v |-> v], [c |-> c],
                 IF c = "ok" THEN PutKV(T, p, k, v) ELSE T)

Delete(x, p, k) ==
    /\ IsOpen(x) /\ p \in Buckets(x)
    /\ LET T == TreeOf(x)
           kind == Kind(T, p, k)
           c == IF x # "w" THEN "ErrTxNotWritable"
                ELSE IF kind = "bucket" THEN "ErrIncompatibleValue"
                ELSE "ok"
       IN Mutate(x, "Delete", [tx |-> x, p |-> p, k |-> k], [c |-> c],
                 IF c = "ok" /\ kind = "value" THEN DelKV(T, p, k) ELSE T)

\* ifne = FALSE: CreateBucket; TRUE: CreateBucketIfNotExists.  At the root
\* only tx.CreateTopLevelBucket exists, which is the IfNotExists flavour.
CreateBucket(x, p, k, ifne) ==
    /\ IsOpen(x) /\ p \in DOMAIN TreeOf(x) /\ Len(p) < MaxDepth
    /\ p = Root => ifne
    /\ LET T == TreeOf(x)
           kind == Kind(T, p, k)
           c == IF x # "w" THEN "ErrTxNotWritable"
                ELSE IF kind = "empty" THEN "ErrBucketNameRequired"
                ELSE IF kind = "bucket" THEN (IF ifne THEN "ok" ELSE "ErrBucketExists")
                ELSE IF kind = "value" THEN "ErrIncompatibleValue"
                ELSE "ok"
       IN Mutate(x, IF ifne THEN "CreateBucketIfNotExists" ELSE "CreateBucket",
                 [tx |-> x, p |-> p, k |-> k], [c |-> c],
                 IF c = "ok" /\ kind = "absent" THEN SetB(T, Append(p, k), EmptyB) ELSE T)

\* at the root this is tx.DeleteTopLevelBucket; the whole subtree goes.
\* Corner: with the empty name on a bucket that has no entries bbolt's seek
\* returns a nil key, which bytes.Equal takes for the empty name, and the
\* answer is ErrIncompatibleValue instead of ErrBucketNotFound; the identity
\* of the error is not asserted there ("rejected" = any error, no change).
DeleteNestedBucket(x, p, k) ==
    /\ IsOpen(x) /\ p \in DOMAIN TreeOf(x)
    /\ LET T == TreeOf(x)
           kind == Kind(T, p, k)
           c == IF x # "w" THEN "ErrTxNotWritable"
                ELSE IF kind = "empty" /\ Ents(T, p) = <<>> THEN "rejected"   \* see the note above
                ELSE IF kind \in {"empty", "absent"} THEN "ErrBucketNotFound"
                ELSE IF kind = "value" THEN "ErrIncompatibleValue"
                ELSE "ok"
       IN Mutate(x, "DeleteNestedBucket", [tx |-> x, p |-> p, k |-> k], [c |-> c],
                 IF c = "ok" THEN DropSub(T, Append(p, k)) ELSE T)

NextSequence(x, p) ==
    /\ IsOpen(x) /\ p \in Buckets(x)
    /\ LET T == TreeOf(x) IN
       IF x # "w"
       THEN Mutate(x, "NextSequence", [tx |-> x, p |-> p], [c |-> "rejected"], T)
       ELSE /\ T[p].seq < MaxSeq
            /\ Mutate(x, "NextSequence", [tx |-> x, p |-> p], [c |-> "num", n |-> T[p].seq + 1],
                      SetSeq(T, p, T[p].seq + 1))

SetSequence(x, p, n) ==
    /\ IsOpen(x) /\ p \in Buckets(x)
    /\ LET T == TreeOf(x) IN
       Mutate(x, "SetSequence", [tx |-> x, p |-> p, n |-> n],
              [c |-> IF x # "w" THEN "rejected" ELSE "ok"],
              IF x = "w" THEN SetSeq(T, p, n) ELSE T)

----------------------------------------------------------------------------
(* Reads: no effect on the state, the expectation goes into the history *)
Read(op, a, ret) == UNCHANGED state /\ Step(op, a, ret)

Get(x, p, k) ==
    /\ IsOpen(x) /\ p \in Buckets(x)
    /\ LET T == TreeOf(x) IN
       Read("Get", [tx |-> x, p |-> p, k |-> k],
            IF Kind(T, p, k) = "value" THEN [c |-> "val", v |-> T[p].kv[k]] ELSE [c |-> "nil"])

\* tx.ReadBucket / ReadWriteBucket at the root, NestedRead[Write]Bucket below
Lookup(x, p, k) ==
    /\ IsOpen(x) /\ p \in DOMAIN TreeOf(x)
    /\ Read("Lookup", [tx |-> x, p |-> p, k |-> k],
            [c |-> IF Kind(TreeOf(x), p, k) = "bucket" THEN "bucket" ELSE "nil"])

Sequence(x, p) ==
    /\ IsOpen(x) /\ p \in Buckets(x)
    /\ Read("Sequence", [tx |-> x, p |-> p], [c |-> "num", n |-> TreeOf(x)[p].seq])

\* bucket.ForEach, at the root tx.ForEachBucket
ForEach(x, p) ==
    /\ IsOpen(x) /\ p \in DOMAIN TreeOf(x)
    /\ LET T == TreeOf(x)
           E == Ents(T, p)
       IN Read("ForEach", [tx |-> x, p |-> p],
               [c |-> "list", l |-> [i \in 1..Len(E) |-> Ent(T, p, E[i])]])

----------------------------------------------------------------------------
(* The cursor.  idx is the position in the sorted entries E of the bucket:  *)
(* 1..n on an entry, n+1 parked behind the end (only by Seek), 0 when the  *)
(* bucket is empty; ok = the last move returned an entry.                   *)
CurRet(T, p, E, idx) == IF idx \in 1..Len(E) THEN Ent(T, p, E[idx]) ELSE [c |-> "nil"]

CPos(x, p, how, s) ==
    /\ IsOpen(x) /\ p \in Buckets(x)
    /\ LET T == TreeOf(x)
           E == Ents(T, p)
           n == Len(E)
           ge == {i \in 1..n : Leq(s, E[i])}
           idx == IF n = 0 THEN 0
                  ELSE CASE how = "First" -> 1
                         [] how = "Last"  -> n
                         [] OTHER -> IF ge = {} THEN n + 1
                                     ELSE CHOOSE i \in ge : \A j \in ge : i <= j
       IN /\ cur' = [tx |-> x, p |-> p, idx |-> idx, ok |-> idx \in 1..n]
          /\ UNCHANGED <<disk, wr, rd, nw, nr>>
          /\ Step(how, IF how = "Seek" THEN [tx |-> x, p |-> p, k |-> s] ELSE [tx |-> x, p |-> p],
                  CurRet(T, p, E, idx))

CMove(x, dir) ==
    /\ IsOpen(x) /\ cur.tx = x
    /\ LET T == TreeOf(x)
           E == Ents(T, cur.p)
           n == Len(E)
           moved == IF dir = "Next" THEN n > 0 /\ cur.idx < n ELSE n > 0 /\ cur.idx > 1
           idx == IF ~moved THEN cur.idx ELSE IF dir = "Next" THEN cur.idx + 1 ELSE cur.idx - 1
       IN /\ cur' = [cur EXCEPT !.idx = idx, !.ok = moved]
          /\ UNCHANGED <<disk, wr, rd, nw, nr>>
          /\ Step(dir, [tx |-> x], IF moved THEN Ent(T, cur.p, E[idx]) ELSE [c |-> "nil"])

CDelete(x) ==
    /\ IsOpen(x) /\ cur.tx = x /\ cur.ok
    /\ LET T == TreeOf(x)
           k == Ents(T, cur.p)[cur.idx]
           c == IF x # "w" THEN "ErrTxNotWritable"
                ELSE IF Kind(T, cur.p, k) = "bucket" THEN "ErrIncompatibleValue"
                ELSE "ok"
       IN Mutate(x, "CursorDelete", [tx |-> x], [c |-> c],
                 IF c = "ok" THEN DelKV(T, cur.p, k) ELSE T)

----------------------------------------------------------------------------
AllPaths(x) == DOMAIN TreeOf(x)

(* One operator per public operation, quantified over its arguments.  In    *)
(* Next the quantifiers over constant sets come first, so TLC counts every  *)
(* operation as an action of its own (-coverage).                           *)
PutAny(x)     == \E p \in AllPaths(x) : \E k \in KeyArgs(x) : \E v \in ValArgs(x) : Put(x, p, k, v)
DeleteAny(x)  == \E p \in AllPaths(x) :
                   \E k \in (IF x = "w" THEN Keys \cup {<<>>} ELSE {RoKey}) : Delete(x, p, k)
CreateAny(x)  == \E p \in AllPaths(x) :
                   \E k \in (IF x = "w" THEN Names(p) \cup {<<>>} ELSE {RoKey}) : CreateBucket(x, p, k, FALSE)
CreateIfNotExistsAny(x) ==
                 \E p \in AllPaths(x) :
                   \E k \in (IF x = "w" THEN Names(p) \cup {<<>>} ELSE {<<>>}) : CreateBucket(x, p, k, TRUE)
DeleteBucketAny(x) ==
                 \E p \in AllPaths(x) :
                   \E k \in (IF x = "w" THEN Names(p) \cup {<<>>} ELSE {RoKey}) : DeleteNestedBucket(x, p, k)
NextSeqAny(x) == \E p \in AllPaths(x) : NextSequence(x, p)
SetSeqAny(x)  == \E p \in AllPaths(x) : \E n \in (IF x = "w" THEN 0..MaxSeq ELSE {1}) : SetSequence(x, p, n)
GetAny(x)     == \E p \in AllPaths(x) : \E k \in Keys \cup {<<>>} : Get(x, p, k)
LookupAny(x)  == \E p \in AllPaths(x) : \E k \in Names(p) \cup {<<>>} : Lookup(x, p, k)
SequenceAny(x) == \E p \in AllPaths(x) : Sequence(x, p)
ForEachAny(x) == \E p \in AllPaths(x) : ForEach(x, p)
FirstAny(x)   == \E p \in AllPaths(x) : CPos(x, p, "First", <<>>)
LastAny(x)    == \E p \in AllPaths(x) : CPos(x, p, "Last", <<>>)
SeekAny(x)    == \E p \in AllPaths(x) : \E s \in Keys \cup {<<>>} : CPos(x, p, "Seek", s)
CNext(x)      == CMove(x, "Next")
CPrev(x)      == CMove(x, "Prev")

Modes    == {"manual", "managed"}
Outcomes == {"nil", "error", "panic"}

TxNext ==
    \/ \E m \in Modes : BeginW(m)
    \/ Commit \/ Rollback
    \/ \E o \in Outcomes : UpdateEnd(o)
    \/ \E r \in Readers : \E m \in Modes : BeginR(r, m)
    \/ \E r \in Readers : RollbackR(r)
    \/ \E r \in Readers : \E o \in Outcomes : ViewEnd(r, o)
    \/ Reopen

MutNext ==
    \E x \in TxIds :
      \/ PutAny(x) \/ DeleteAny(x) \/ CreateAny(x) \/ CreateIfNotExistsAny(x) \/ DeleteBucketAny(x)
      \/ NextSeqAny(x) \/ SetSeqAny(x)

ReadNext ==
    \E x \in TxIds : GetAny(x) \/ LookupAny(x) \/ SequenceAny(x) \/ ForEachAny(x)

CurNext ==
    \E x \in TxIds : FirstAny(x) \/ LastAny(x) \/ SeekAny(x) \/ CNext(x) \/ CPrev(x) \/ CDelete(x)

Next == TxNext \/ MutNext \/ ReadNext \/ CurNext

(* The same steps grouped differently for -simulate, which picks one of the *)
(* actions of the next-state relation at random and then one of its         *)
(* successors: transaction control would otherwise be 21 of 70 actions and  *)
(* the walks would hardly ever build any content.  Quantifying over a       *)
(* state-dependent set (NS) keeps TLC from splitting a group into actions;  *)
(* a group that is listed twice is twice as likely.  Every NextSim step is  *)
(* a Next step.                                                             *)
NS(S) == IF nw >= 0 THEN S ELSE {}
SimBegin  == \/ \E m \in NS(Modes) : BeginW(m)
             \/ \E r \in NS(Readers) : \E m \in Modes : BeginR(r, m)
SimEnd    == \E o \in NS(Outcomes) : \/ Commit \/ Rollback \/ UpdateEnd(o) \/ Reopen
                                      \/ \E r \in Readers : RollbackR(r) \/ ViewEnd(r, o)
SimPut    == \E x \in NS({"w"}) : PutAny(x)
SimPut2   == \E x \in NS({"w"}) : PutAny(x)
SimCreate == \E x \in NS({"w"}) : CreateAny(x) \/ CreateIfNotExistsAny(x)
SimDelete == \E x \in NS({"w"}) : DeleteAny(x) \/ DeleteBucketAny(x)
SimSeq    == \E x \in NS({"w"}) : NextSeqAny(x) \/ SetSeqAny(x)
SimRoMut  == \E x \in NS(Readers) : \/ PutAny(x) \/ DeleteAny(x) \/ CreateAny(x) \/ CreateIfNotExistsAny(x)
                                     \/ DeleteBucketAny(x) \/ NextSeqAny(x) \/ SetSeqAny(x)
SimRead   == \E x \in NS(TxIds) : GetAny(x) \/ LookupAny(x) \/ SequenceAny(x) \/ ForEachAny(x)
SimRead2  == \E x \in NS(TxIds) : GetAny(x) \/ ForEachAny(x)
SimCurPos == \E x \in NS(TxIds) : FirstAny(x) \/ LastAny(x) \/ SeekAny(x)
SimCurMove == \E x \in NS(TxIds) : CNext(x) \/ CPrev(x)
SimCurMove2 == \E x \in NS(TxIds) : CNext(x) \/ CPrev(x) \/ CDelete(x)
NextSim == \/ SimBegin \/ SimEnd \/ SimPut \/ SimPut2 \/ SimCreate \/ SimDelete \/ SimSeq \/ SimRoMut
           \/ SimRead \/ SimRead2 \/ SimCurPos \/ SimCurMove \/ SimCurMove2

Spec == Init /\ [][Next]_vars

----------------------------------------------------------------------------
(* Invariants (states) *)
TypeOK ==
    /\ WellFormed(disk)
    /\ wr.open \in BOOLEAN /\ wr.mode \in {"-", "manual", "managed"} /\ wr.nops \in 0..MaxOps
    /\ wr.open => WellFormed(wr.tree)
    /\ \A r \in Readers : rd[r].open => WellFormed(rd[r].snap)
    /\ nw \in 0..MaxWTx /\ nr \in 0..MaxRTx
    /\ cur.tx \in TxIds \cup {"-"}
    /\ cur.tx # "-" => /\ IsOpen(cur.tx) /\ cur.p \in Buckets(cur.tx)
                       /\ cur.idx \in 0..(Len(Ents(TreeOf(cur.tx), cur.p)) + 1)
                       /\ cur.ok => cur.idx \in 1..Len(Ents(TreeOf(cur.tx), cur.p))

LastStep == hist[Len(hist)]

\* every answer is one of the classes the interface names
Classes == {"ok", "nil", "val", "num", "list", "kv", "kb", "bucket", "fnerr", "panic", "rejected",
            "ErrTxNotWritable", "ErrBucketExists", "ErrBucketNotFound", "ErrKeyRequired",
            "ErrIncompatibleValue", "ErrBucketNameRequired"}
MutOps == {"Put", "Delete", "CreateBucket", "CreateBucketIfNotExists", "DeleteNestedBucket",
           "NextSequence", "SetSequence", "CursorDelete"}
ErrorMapping ==
    hist # <<>> =>
      /\ LastStep.ret.c \in Classes
      /\ (LastStep.op \in MutOps /\ LastStep.a.tx \in Readers) => LastStep.ret.c \in {"ErrTxNotWritable", "rejected"}
      /\ LastStep.ret.c = "ErrKeyRequired" => LastStep.op = "Put" /\ LastStep.a.k = <<>>
      /\ LastStep.ret.c = "ErrBucketNameRequired" =>
            LastStep.op \in {"CreateBucket", "CreateBucketIfNotExists"} /\ LastStep.a.k = <<>>
      /\ LastStep.ret.c = "ErrBucketExists" => LastStep.op = "CreateBucket"
      /\ LastStep.ret.c = "ErrBucketNotFound" => LastStep.op = "DeleteNestedBucket"
      /\ LastStep.op \in {"Commit", "Rollback", "UpdateEnd", "ViewEnd"} => LastStep.ret.closed = "ErrTxClosed"

\* keys come out in ascending byte order, each once
RECURSIVE Ascending(_)
Ascending(l) == Len(l) < 2 \/ (Less(l[1].k, l[2].k) /\ Ascending(Tail(l)))
ForEachOrdered == (hist # <<>> /\ LastStep.op = "ForEach") => Ascending(LastStep.ret.l)

Inv == TypeOK /\ ErrorMapping /\ ForEachOrdered

(* Action properties, written from the property's sentences rather than    *)
(* from the action definitions; L' is the step just taken.                  *)
L == hist[Len(hist)]

\* all-or-nothing: a failed or panicking Update, a Rollback, and everything that
\* is not a commit leave the committed tree exactly as it was, and the writer
\* is gone (so the next write transaction can begin)
Atomicity ==
    [][ /\ (L'.op = "UpdateEnd" /\ L'.a.outcome # "nil") => (disk' = disk /\ ~wr'.open)
        /\ (L'.op = "Rollback" /\ L'.a.tx = "w") => (disk' = disk /\ ~wr'.open)
        /\ (L'.op \in {"Rollback", "ViewEnd"} /\ L'.a.tx \in Readers) => ~rd'[L'.a.tx].open
        /\ (L'.op \notin {"UpdateEnd", "Commit"}) => disk' = disk
        /\ (L'.op \in {"UpdateEnd", "Commit"}) => (~wr'.open /\ L'.ret.next = "ok") ]_vars

\* a successful Update / Commit publishes exactly the writer's view, all of it
\* at once; Reopen shows the same tree; a transaction begun later starts from it
Visibility ==
    [][ /\ ((L'.op = "UpdateEnd" /\ L'.a.outcome = "nil") \/ L'.op = "Commit") => disk' = wr.tree
        /\ L'.op = "Reopen" => disk' = disk
        /\ L'.op \in {"BeginRO", "ViewBegin"} => rd'[L'.a.tx].snap = disk
        /\ L'.op \in {"BeginRW", "UpdateBegin"} => wr'.tree = disk ]_vars

\* a transaction reads its own writes
ReadYourWrites ==
    [][ LET a == L'.a IN
        /\ (L'.op = "Put" /\ L'.ret.c = "ok") =>
              Kind(wr'.tree, a.p, a.k) = "value" /\ wr'.tree[a.p].kv[a.k] = a.v
        /\ (L'.op = "Delete" /\ L'.ret.c = "ok") => Kind(wr'.tree, a.p, a.k) \in {"absent", "empty"}
        /\ (L'.op \in {"CreateBucket", "CreateBucketIfNotExists"} /\ L'.ret.c = "ok") =>
              Kind(wr'.tree, a.p, a.k) = "bucket"
        /\ (L'.op = "CreateBucket" /\ L'.ret.c = "ok") => wr'.tree[Append(a.p, a.k)] = EmptyB
        /\ (L'.op = "DeleteNestedBucket" /\ L'.ret.c = "ok") => Kind(wr'.tree, a.p, a.k) = "absent"
        /\ (L'.op = "NextSequence" /\ L'.ret.c = "num") =>
              wr'.tree[a.p].seq = L'.ret.n /\ L'.ret.n = wr.tree[a.p].seq + 1
        /\ (L'.op = "SetSequence" /\ L'.ret.c = "ok") => wr'.tree[a.p].seq = a.n
        /\ (L'.op = "Get" /\ L'.ret.c = "val") => TreeOf(a.tx)[a.p].kv[a.k] = L'.ret.v ]_vars

\* a reader keeps the snapshot it began with, whatever is committed meanwhile
\* or attempted through it; nothing a writer does is visible before its commit
Isolation ==
    [][ /\ \A r \in Readers : (rd[r].open /\ rd'[r].open) => rd'[r].snap = rd[r].snap
        /\ (wr.open /\ wr'.open /\ wr'.tree # wr.tree) => (L'.a.tx = "w" /\ disk' = disk) ]_vars

\* read-only transactions reject every mutation and nothing changes
ReadOnlyRejects ==
    [][ (L'.op \in MutOps /\ L'.a.tx \in Readers) =>
          /\ L'.ret.c \in {"ErrTxNotWritable", "rejected"}
          /\ UNCHANGED <<disk, wr, rd>> ]_vars

\* a refused operation changes nothing
ErrorsChangeNothing ==
    [][ (L'.op \in MutOps /\ L'.ret.c \notin {"ok", "num"}) => UNCHANGED <<disk, wr, rd>> ]_vars

\* cursor moves: Next returns the least entry above the current one, Prev the
\* greatest below, First / Last the extremes, Seek the least entry >= the key
CursorOrder ==
    [][ LET x == L'.a.tx
            T == TreeOf(x)
            E == DOMAIN T[cur'.p].kv \cup SubNames(T, cur'.p)
            here == Ents(T, cur.p)[cur.idx]
        IN
        /\ (L'.op = "Next" /\ cur.ok /\ L'.ret.c # "nil") =>
              Less(here, L'.ret.k) /\ ~\E e \in E : Less(here, e) /\ Less(e, L'.ret.k)
        /\ (L'.op = "Next" /\ cur.ok /\ L'.ret.c = "nil") => ~\E e \in E : Less(here, e)
        /\ (L'.op = "Prev" /\ cur.ok /\ L'.ret.c # "nil") =>
              Less(L'.ret.k, here) /\ ~\E e \in E : Less(L'.ret.k, e) /\ Less(e, here)
        /\ (L'.op = "Prev" /\ cur.ok /\ L'.ret.c = "nil") => ~\E e \in E : Less(e, here)
        /\ (L'.op = "First" /\ L'.ret.c # "nil") => \A e \in E : Leq(L'.ret.k, e)
        /\ (L'.op = "Last" /\ L'.ret.c # "nil") => \A e \in E : Leq(e, L'.ret.k)
        /\ (L'.op \in {"First", "Last"} /\ L'.ret.c = "nil") => E = {}
        /\ (L'.op = "Seek" /\ L'.ret.c # "nil") =>
              Leq(L'.a.k, L'.ret.k) /\ ~\E e \in E : Leq(L'.a.k, e) /\ Less(e, L'.ret.k)
        /\ (L'.op = "Seek" /\ L'.ret.c = "nil") => ~\E e \in E : Leq(L'.a.k, e) ]_vars

\* nested buckets are independent namespaces: an operation on bucket p changes
\* that bucket only (creating / deleting a nested bucket: only that subtree)
Namespaces ==
    [][ (L'.op \in MutOps /\ L'.a.tx = "w" /\ wr.open /\ wr'.open) =>
          LET T == wr.tree
              T2 == wr'.tree
              p == IF L'.op = "CursorDelete" THEN cur.p ELSE L'.a.p
              sub == IF L'.op \in {"CreateBucket", "CreateBucketIfNotExists", "DeleteNestedBucket"}
                     THEN Append(p, L'.a.k) ELSE p
          IN /\ \A q \in DOMAIN T \cup DOMAIN T2 :
                   (q # p /\ ~IsPrefix(sub, q)) => (q \in DOMAIN T /\ q \in DOMAIN T2 /\ T2[q] = T[q])
             /\ (L'.op \in {"CreateBucket", "CreateBucketIfNotExists", "DeleteNestedBucket"} /\ p \in DOMAIN T2)
                   => T2[p] = T[p]
             /\ (L'.op \in {"Put", "Delete", "CursorDelete"}) => T2[p].seq = T[p].seq /\ DOMAIN T2 = DOMAIN T
             /\ (L'.op \in {"NextSequence", "SetSequence"}) => T2[p].kv = T[p].kv /\ DOMAIN T2 = DOMAIN T ]_vars

----------------------------------------------------------------------------
(* Constant values for the configurations (a cfg file cannot write tuples): *)
(* "" a ab b 0x00 0xff as keys -- prefixes and both extremes -- "" x y as   *)
(* values, one or two top-level buckets t, u.                               *)
KeysS == {<<>>, <<97>>, <<97, 98>>}
KeysM == {<<>>, <<0>>, <<97>>, <<97, 98>>, <<255>>}
KeysL == {<<>>, <<0>>, <<97>>, <<97, 98>>, <<98>>, <<255>>}
ValsS == {<<>>, <<120>>}
ValsL == {<<>>, <<120>>, <<121>>}
Tops1 == {<<116>>}
Tops2 == {<<116>>, <<117>>}

----------------------------------------------------------------------------
(* Exploration support *)
View      == state
\* one behaviour per transition of the (view-reduced) state graph
EmitStep  == PrintT(<<"TRACE", ToJson([tops |-> Tops, steps |-> hist', exp |-> Obs'])>>)
\* simulation: print the behaviour when it reaches full length
EmitFull  == (Len(hist) >= MaxHist) => PrintT(<<"TRACE", ToJson([tops |-> Tops, steps |-> hist])>>)
=============================================================================
