\* C19: two managers upgraded by one Upgrade call inside one database transaction; every pair of
\* cases with numbers in 1..2, stored 0..3, failure anywhere (92 x 92 = 8 464 cases).
CONSTANTS
  Family = "mock2"
  MaxV = 2
INIT Init
NEXT Next
INVARIANT Inv EmitCase
CHECK_DEADLOCK FALSE
