\* three concurrent callers, all holding the wallet's address mutex
CONSTANTS
  Callers = {1, 2, 3}
  Guarded = {1, 2, 3}
SPECIFICATION Spec
INVARIANT Inv
PROPERTY Termination
