\* C07 thorough, model checking on small coin multisets: every sequence of 0..3 coins over the four input types and
\* four values, 0..2 requested outputs of three amounts, three change script types, two rates (236 000 cases).
\* Checks the outcome invariants (Inv) and, with weak fairness of the loop, termination.
CONSTANTS
  Family = "smallT"
  NRandom = 0
SPECIFICATION Spec
INVARIANT Inv
PROPERTY Terminates
CHECK_DEADLOCK FALSE
