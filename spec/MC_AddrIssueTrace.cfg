\* trace validation: all callers guarded; acceptance = NotAccepted violated
CONSTANTS
  Callers = {1, 2, 3}
  Guarded = {1, 2, 3}
SPECIFICATION TraceSpec
INVARIANT NotAccepted
CHECK_DEADLOCK FALSE
