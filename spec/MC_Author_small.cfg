\* C07 quick, model checking on small coin multisets: every sequence of 0..3 coins over the four input types and
\* three values, 0..2 requested outputs of two amounts, three change script types, two rates (68 000 cases).
\* Checks the outcome invariants (Inv) and, with weak fairness of the loop, termination.
CONSTANTS
  Family = "small"
  NRandom = 0
SPECIFICATION Spec
INVARIANT Inv
PROPERTY Terminates
CHECK_DEADLOCK FALSE
