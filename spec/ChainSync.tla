----------------------------- MODULE ChainSync -----------------------------
(***************************************************************************)
(* The wallet following the backend's best chain (C15).                    *)
(*                                                                         *)
(* Backend: the best chain above the wallet's birthday block as a sequence *)
(* of block identifiers (a fresh identifier per block ever created), the   *)
(* block each wallet-relevant transaction is confirmed in, the mempool.    *)
(* Wallet: what wallet.handleChainNotifications / syncWithChain maintain:  *)
(* the synced-to height, the remembered block identifier per height, for   *)
(* every known transaction the block it believes it is confirmed in.       *)
(*                                                                         *)
(* The wallet side is written as the notification handlers of the code     *)
(* (connectBlock, addRelevantTx via FilteredBlockConnected, disconnectBlock*)
(* with its height / hash guards, the start-up rollback loop followed by a *)
(* rescan), applied in the order bitcoind delivers notifications.  Each    *)
(* backend action delivers its notifications and the wallet drains them    *)
(* before the next action (the driver flushes), so every state is a        *)
(* quiescent point and the property is the invariant WalletFollows.        *)
(***************************************************************************)
EXTENDS Integers, Sequences, FiniteSets, TLC, Json, IOUtils

CONSTANTS
    Txs,        \* wallet-relevant transactions (independent receipts), e.g. {1,2}
    MaxLen,     \* maximum number of blocks above the birthday block
    MaxDepth,   \* maximum reorg depth
    MinKeep,    \* a reorg keeps at least this many blocks above the birthday block
                \* (0 = may replace every block above it, i.e. the common ancestor is the
                \* birthday block itself: the history of finding F6)
    MaxBlocks,  \* bound on block identifiers ever created
    Acts,       \* optional actions explored by this configuration (e.g. {"StartDuringReorg"})
    MaxHist,
    FullHist

VARIABLES
    chain,     \* backend: Seq of block ids; chain[k] is the block at height birthday+k
    nextId,    \* next fresh block id
    conf,      \* backend: [Txs -> 0..MaxLen] position of the confirming block, 0 = not confirmed
    sent,      \* backend: transactions that have been broadcast (in a block or the mempool)
    running,   \* wallet attached to the backend
    wchain,    \* wallet: remembered block ids above the birthday block
    wconf,     \* wallet: [Txs -> -1..MaxLen]: -1 unknown, 0 unconfirmed, k confirmed at position k
    lastDisc,  \* <<base, ids>>: the blocks removed by the latest disconnection, ids[j] was at position base + j
               \* (for repeated notifications); <<0, <<>>>> = none
    hist

bvars == <<chain, nextId, conf, sent>>
wvars == <<running, wchain, wconf>>
state == <<chain, nextId, conf, sent, running, wchain, wconf, lastDisc>>
vars  == <<chain, nextId, conf, sent, running, wchain, wconf, lastDisc, hist>>

Tip  == Len(chain)
WTip == Len(wchain)
Mempool == {t \in sent : conf[t] = 0}

----------------------------------------------------------------------------
(* Wallet handlers, as records-in / records-out functions over its view    *)
(* w = [chain |-> ..., conf |-> ...].                                      *)

\* FilteredBlockConnected (relevant txs of the block) then BlockConnected
OnConnect(w, pos, id, txs) ==
    [ chain |-> IF pos = Len(w.chain) + 1 THEN Append(w.chain, id) ELSE w.chain,  \* SetSyncedTo needs the predecessor
      conf  |-> [t \in Txs |-> IF t \in txs THEN pos ELSE w.conf[t]] ]

\* BlockDisconnected: only acted upon if the wallet remembers exactly this
\* block at this height; rolls the sync stamp and the tx store back.
OnDisconnect(w, pos, id) ==
    IF pos <= Len(w.chain) /\ w.chain[pos] = id
    THEN [ chain |-> SubSeq(w.chain, 1, pos - 1),
           conf  |-> [t \in Txs |-> IF w.conf[t] >= pos THEN 0 ELSE w.conf[t]] ]
    ELSE w

\* an unconfirmed relevant transaction is announced
OnRelevant(w, t) == [w EXCEPT !.conf[t] = IF @ = -1 THEN 0 ELSE @]

\* start-up: roll back to the last block still on the backend's chain, then
\* rescan from there (every relevant tx of the later blocks is delivered with
\* its block) and adopt the backend's block ids up to its tip.
RECURSIVE CommonPrefix(_, _)
CommonPrefix(a, b) ==
    IF a = <<>> \/ b = <<>> \/ Head(a) # Head(b) THEN 0
    ELSE 1 + CommonPrefix(Tail(a), Tail(b))

OnStart(w, bchain, bconf) ==
    LET k == CommonPrefix(w.chain, bchain)
        rolled == [t \in Txs |-> IF w.conf[t] > k THEN 0 ELSE w.conf[t]]
    IN [ chain |-> bchain,
         conf  |-> [t \in Txs |-> IF bconf[t] > k THEN bconf[t] ELSE rolled[t]] ]

W == [chain |-> wchain, conf |-> wconf]
SetW(w) == wchain' = w.chain /\ wconf' = w.conf

----------------------------------------------------------------------------
On(x) == x \in Acts

Obs == [ running |-> running,
         tip |-> Tip, chain |-> chain, wchain |-> wchain,
         wconf |-> wconf, conf |-> conf, sent |-> sent ]

Step(op, a) ==
    hist' = Append(hist, [op |-> op, a |-> a, exp |-> IF FullHist THEN Obs' ELSE <<>>])

\* Position 1 is the backend's tip at the time the wallet first synchronises; the
\* wallet's birthday block (the lowest block it remembers) is right below it.
Init ==
    /\ chain = <<1>> /\ nextId = 2
    /\ conf = [t \in Txs |-> 0] /\ sent = {}
    /\ running = TRUE
    /\ wchain = <<1>> /\ wconf = [t \in Txs |-> -1]
    /\ lastDisc = <<0, <<>>>>
    /\ hist = <<>>

(* somebody broadcasts a payment to the wallet *)
Receive(t) ==
    /\ t \notin sent
    /\ sent' = sent \cup {t}
    /\ IF running THEN SetW(OnRelevant(W, t)) ELSE UNCHANGED <<wchain, wconf>>
    /\ UNCHANGED <<chain, nextId, conf, running, lastDisc>>
    /\ Step("Receive", [t |-> t])

(* a block is mined on top of the best chain with some mempool txs *)
Extend(S) ==
    /\ Tip < MaxLen /\ nextId <= MaxBlocks
    /\ S \subseteq Mempool
    /\ chain' = Append(chain, nextId) /\ nextId' = nextId + 1
    /\ conf' = [t \in Txs |-> IF t \in S THEN Tip + 1 ELSE conf[t]]
    /\ IF running THEN SetW(OnConnect(W, Tip + 1, nextId, S)) ELSE UNCHANGED <<wchain, wconf>>
    /\ UNCHANGED <<sent, running, lastDisc>>
    /\ Step("Extend", [txs |-> S])

(* the top d blocks are replaced by n new ones (n >= d); the transactions   *)
(* of the removed blocks return to the mempool; the first new block         *)
(* confirms the set S of mempool transactions.  Notifications: disconnects  *)
(* top-down, then connects bottom-up.                                       *)
RECURSIVE Disconnects(_, _, _)
Disconnects(w, ch, d) ==
    IF d = 0 THEN w ELSE Disconnects(OnDisconnect(w, Len(ch), ch[Len(ch)]), SubSeq(ch, 1, Len(ch) - 1), d - 1)
RECURSIVE Connects(_, _, _, _, _)
Connects(w, pos, id, n, S) ==
    IF n = 0 THEN w ELSE Connects(OnConnect(w, pos, id, S), pos + 1, id + 1, n - 1, {})

(* dup > 0: after the d disconnect notifications the backend repeats the one  *)
(* for the dup-th removed block counted from the former tip (1 = the former   *)
(* tip, d = the lowest removed block) before the new blocks arrive; the       *)
(* repeated notification is stale at that moment and must change nothing.     *)
Reorg(d, n, S, dup) ==
    /\ d \in 1..MaxDepth /\ d <= Tip - MinKeep /\ n \in {d, d + 1}
    /\ dup \in {0, 1, d}
    /\ Tip - d + n <= MaxLen /\ nextId + n - 1 <= MaxBlocks
    /\ LET base == Tip - d
           back == {t \in Txs : conf[t] > base}
           mem  == Mempool \cup back
       IN  /\ S \subseteq mem
           /\ chain' = SubSeq(chain, 1, base) \o [i \in 1..n |-> nextId + i - 1]
           /\ nextId' = nextId + n
           /\ conf' = [t \in Txs |-> IF t \in S THEN base + 1 ELSE IF t \in back THEN 0 ELSE conf[t]]
           /\ lastDisc' = <<base, SubSeq(chain, base + 1, Tip)>>
           /\ IF running
              THEN LET w1 == Disconnects(W, chain, d)
                       w2 == IF dup = 0 THEN w1 ELSE OnDisconnect(w1, Tip - dup + 1, chain[Tip - dup + 1])
                   IN  SetW(Connects(w2, base + 1, nextId, n, S))
              ELSE UNCHANGED <<wchain, wconf>>
    /\ UNCHANGED <<sent, running>>
    /\ Step("Reorg", [d |-> d, n |-> n, txs |-> S, dup |-> dup])

(* the top d blocks are disconnected and then the very same blocks are        *)
(* connected again (invalidateblock / reconsiderblock, a competing branch     *)
(* that is abandoned): the backend's chain is unchanged afterwards            *)
RECURSIVE ConnectSame(_, _)
ConnectSame(w, pos) ==
    IF pos > Tip THEN w
    ELSE ConnectSame(OnConnect(w, pos, chain[pos], {t \in Txs : conf[t] = pos}), pos + 1)

Flap(d) ==
    /\ d \in 1..MaxDepth /\ d <= Tip - MinKeep
    /\ lastDisc' = <<0, <<>>>>   \* those blocks are on the chain again: a repeat would not be stale
    /\ IF running
       THEN SetW(ConnectSame(Disconnects(W, chain, d), Tip - d + 1))
       ELSE UNCHANGED <<wchain, wconf>>
    /\ UNCHANGED <<bvars, running>>
    /\ Step("Flap", [d |-> d])

(* the best chain loses its top d blocks and nothing replaces them yet        *)
(* (invalidateblock, or the first half of a reorganisation whose new branch   *)
(* is still being downloaded): only disconnect notifications                  *)
Shrink(d) ==
    /\ running       \* while the wallet is stopped only evolutions that do not shorten the best chain are considered
    /\ d \in 1..MaxDepth /\ d <= Tip - MinKeep
    /\ LET base == Tip - d
           back == {t \in Txs : conf[t] > base}
       IN  /\ chain' = SubSeq(chain, 1, base)
           /\ conf' = [t \in Txs |-> IF t \in back THEN 0 ELSE conf[t]]
           /\ lastDisc' = <<base, SubSeq(chain, base + 1, Tip)>>
           /\ SetW(Disconnects(W, chain, d))
    /\ UNCHANGED <<nextId, sent, running>>
    /\ Step("Shrink", [d |-> d])

(* the backend repeats one of its latest disconnect notifications (any of the *)
(* blocks it removed last, not only the lowest)                               *)
DupDisconnect(j) ==
    /\ running /\ j \in 1..Len(lastDisc[2])
    /\ SetW(OnDisconnect(W, lastDisc[1] + j, lastDisc[2][j]))
    /\ UNCHANGED <<bvars, running, lastDisc>>
    /\ Step("DupDisconnect", [pos |-> lastDisc[1] + j])

(* a disconnect notification for a block the wallet never had at a height   *)
(* it has (a stale branch) *)
StaleDisconnect(pos) ==
    /\ running /\ pos \in 1..WTip
    /\ SetW(OnDisconnect(W, pos, 0))
    /\ UNCHANGED <<bvars, running, lastDisc>>
    /\ Step("StaleDisconnect", [pos |-> pos])

Stop ==
    /\ running /\ running' = FALSE
    /\ UNCHANGED <<bvars, wchain, wconf, lastDisc>>
    /\ Step("Stop", <<>>)

Start ==
    /\ ~running /\ running' = TRUE
    /\ SetW(OnStart(W, chain, conf))
    /\ UNCHANGED <<bvars, lastDisc>>
    /\ Step("Start", <<>>)

(* The wallet is started and, while its initial rescan is still running       *)
(* (block notifications are subscribed, RescanFinished not yet processed),    *)
(* the backend reorganises: the disconnect / connect notifications reach the   *)
(* wallet between the rescan's results and RescanFinished.  Whatever the       *)
(* order, once everything is processed the wallet has to follow the backend.   *)
StartDuringReorg(d, n, S) ==
    /\ ~running /\ running' = TRUE
    /\ d \in 1..MaxDepth /\ d <= Tip - MinKeep /\ n \in {d, d + 1}
    /\ Tip - d + n <= MaxLen /\ nextId + n - 1 <= MaxBlocks
    /\ LET base == Tip - d
           back == {t \in Txs : conf[t] > base}
           mem  == Mempool \cup back
           w0   == OnStart(W, chain, conf)          \* rollback + rescan against the old chain
       IN  /\ S \subseteq mem
           /\ chain' = SubSeq(chain, 1, base) \o [i \in 1..n |-> nextId + i - 1]
           /\ nextId' = nextId + n
           /\ conf' = [t \in Txs |-> IF t \in S THEN base + 1 ELSE IF t \in back THEN 0 ELSE conf[t]]
           /\ lastDisc' = <<base, SubSeq(chain, base + 1, Tip)>>
           /\ SetW(Connects(Disconnects(w0, chain, d), base + 1, nextId, n, S))
    /\ UNCHANGED sent
    /\ Step("StartDuringReorg", [d |-> d, n |-> n, txs |-> S])

(* The connection to the backend is re-established while the wallet keeps     *)
(* running (ClientConnected again: the wallet synchronises with the chain     *)
(* once more), either quietly or with a reorganisation whose notifications    *)
(* arrive while that rescan is under way.  The wallet was in sync, so the      *)
(* effect is that of the reorganisation alone.                                *)
Reconnect ==
    /\ running
    /\ UNCHANGED <<bvars, running, wchain, wconf, lastDisc>>
    /\ Step("Reconnect", <<>>)

ReconnectDuringReorg(d, n, S) ==
    /\ running
    /\ d \in 1..MaxDepth /\ d <= Tip - MinKeep /\ n \in {d, d + 1}
    /\ Tip - d + n <= MaxLen /\ nextId + n - 1 <= MaxBlocks
    /\ LET base == Tip - d
           back == {t \in Txs : conf[t] > base}
           mem  == Mempool \cup back
       IN  /\ S \subseteq mem
           /\ chain' = SubSeq(chain, 1, base) \o [i \in 1..n |-> nextId + i - 1]
           /\ nextId' = nextId + n
           /\ conf' = [t \in Txs |-> IF t \in S THEN base + 1 ELSE IF t \in back THEN 0 ELSE conf[t]]
           /\ lastDisc' = <<base, SubSeq(chain, base + 1, Tip)>>
           /\ SetW(Connects(Disconnects(W, chain, d), base + 1, nextId, n, S))
    /\ UNCHANGED <<sent, running>>
    /\ Step("ReconnectDuringReorg", [d |-> d, n |-> n, txs |-> S])

Next ==
    \/ On("Reconnect") /\ Reconnect
    \/ On("Reconnect") /\ \E d \in 1..MaxDepth, n \in 1..(MaxDepth+1), S \in SUBSET Txs : ReconnectDuringReorg(d, n, S)
    \/ On("StartDuringReorg") /\ \E d \in 1..MaxDepth, n \in 1..(MaxDepth+1), S \in SUBSET Txs : StartDuringReorg(d, n, S)
    \/ \E t \in Txs : Receive(t)
    \/ \E S \in SUBSET Txs : Extend(S)
    \/ \E d \in 1..MaxDepth, n \in 1..(MaxDepth+1), S \in SUBSET Txs, dup \in 0..MaxDepth : Reorg(d, n, S, dup)
    \/ \E d \in 1..MaxDepth : Flap(d)
    \/ \E j \in 1..MaxDepth : DupDisconnect(j)
    \/ On("Shrink") /\ \E d \in 1..MaxDepth : Shrink(d)
    \/ \E p \in 1..MaxLen : StaleDisconnect(p)
    \/ Stop \/ Start

Spec == Init /\ [][Next]_vars

----------------------------------------------------------------------------
TypeOK ==
    /\ Tip <= MaxLen /\ WTip <= MaxLen
    /\ \A t \in Txs : conf[t] \in 0..Tip /\ wconf[t] \in -1..MaxLen

(* C15: at every quiescent point of a running wallet its synced-to block is *)
(* the backend's tip, every remembered block is the one on the best chain,  *)
(* and every transaction it reports confirmed is confirmed in that block of *)
(* the best chain; transactions it knows that are not in the chain are      *)
(* unconfirmed.                                                             *)
WalletFollows ==
    running =>
        /\ wchain = chain
        /\ \A t \in Txs : wconf[t] > 0 => conf[t] = wconf[t]
        /\ \A t \in Txs : conf[t] > 0 => wconf[t] = conf[t]

(* a stopped wallet never reports more than it saw *)
NoInvention == \A t \in Txs : wconf[t] >= 0 => t \in sent

Inv == TypeOK /\ WalletFollows /\ NoInvention

(* stale and duplicate disconnects change nothing *)
StaleIgnored ==
    [][(hist' # hist /\ hist'[Len(hist')].op \in {"DupDisconnect", "StaleDisconnect"}) => UNCHANGED <<wchain, wconf>>]_vars

----------------------------------------------------------------------------
View      == state
\* Emission may be sampled inside TLC (the check sets VERIF_EMIT_EVERY / VERIF_EMIT_OFFSET): one behaviour per
\* EmitEvery generated transitions instead of one per transition - printing dominates the exploration time.
EmitEvery  == IF "VERIF_EMIT_EVERY" \in DOMAIN IOEnv THEN atoi(IOEnv.VERIF_EMIT_EVERY) ELSE 1
EmitOffset == IF "VERIF_EMIT_OFFSET" \in DOMAIN IOEnv THEN atoi(IOEnv.VERIF_EMIT_OFFSET) ELSE 0
\* vacuity probe: with VERIF_NEVER_OP set this invariant is violated as soon as that operation is taken
NeverOp    == ("VERIF_NEVER_OP" \in DOMAIN IOEnv) => (hist = <<>> \/ hist[Len(hist)].op # IOEnv.VERIF_NEVER_OP)
Sampled    == EmitEvery <= 1 \/ TLCGet("generated") % EmitEvery = EmitOffset % EmitEvery
EmitStep  == Sampled => PrintT(<<"TRACE", ToJson([steps |-> hist', exp |-> Obs'])>>)
EmitFull  == (Len(hist) >= MaxHist) => PrintT(<<"TRACE", ToJson([steps |-> hist])>>)
=============================================================================
