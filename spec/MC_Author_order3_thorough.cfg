\* C07 conformance cases, family "order3": as "order" with 0..3 coins per type.
\* Every case is exported with the outcome the specification predicts; Inv is checked on every case.
CONSTANTS
  Family = "order3"
  NRandom = 0
INIT Init
NEXT Next
INVARIANT Inv
ACTION_CONSTRAINT EmitCase
CHECK_DEADLOCK FALSE
