\* C10 quick: five graph families, 2 block heights; behaviours carry the pre-state expectation.
CONSTANTS
  GraphIds = {1,3,4,5,8}
  MaxTip = 2
  Mat = 2
  LeaseIds = {1}
  MaxNow = 1
  MaxHist = 40
  PathView = FALSE
  FullHist = FALSE
INIT Init
NEXT NextCore
VIEW View
INVARIANT Inv
PROPERTY ReorgSemantics ConfirmSemantics LeaseSemantics
ACTION_CONSTRAINT EmitStepPre
CHECK_DEADLOCK FALSE
