----------------------------- MODULE AddrIssue -----------------------------
(***************************************************************************)
(* C09: concurrent address issuance.                                       *)
(*                                                                         *)
(* Every issuing call of the wallet (NewAddress, CurrentAddress,           *)
(* NewChangeAddress, transaction creation with change, PSBT funding with   *)
(* change, ImportAccountDryRun) does, for one account branch:              *)
(*   acq    take Wallet.newAddrMtx                                         *)
(*   begin  open the database transaction (bbolt writer lock)              *)
(*   derive read the IN-MEMORY next index and derive the address from it   *)
(*   write  store the rows and the account's next index                    *)
(*   commit commit; bbolt releases the writer lock and only THEN runs the  *)
(*          commit callbacks                                               *)
(*   cb     the callback advances the in-memory next index                 *)
(*   rel    release newAddrMtx, return the address                         *)
(* Between commit and cb another caller could open a transaction and derive*)
(* from the stale in-memory index: the mutex is what prevents it.          *)
(* Guarded is the set of callers that take the mutex; the property must    *)
(* hold when every caller is guarded, and TLC must find the duplicate as   *)
(* soon as one caller is not (MC_AddrIssue_broken.cfg, non-vacuity).       *)
(***************************************************************************)
EXTENDS Integers, Sequences, FiniteSets, TLC

CONSTANTS Callers, Guarded

(* --algorithm AddrIssue {
  variables mem = 0, disk = 0, mutex = FALSE, dbw = FALSE,
            issued = [c \in Callers |-> -1];
  fair process (caller \in Callers)
    variable idx = -1;
  {
    acq:    if (self \in Guarded) { await ~mutex; mutex := TRUE };
    begin:  await ~dbw; dbw := TRUE;
    derive: idx := mem;
    write:  disk := idx + 1;
    commit: dbw := FALSE;
    cb:     mem := idx + 1; issued[self] := idx;
    rel:    if (self \in Guarded) { mutex := FALSE };
  }
} *)
\* BEGIN TRANSLATION
VARIABLES pc, mem, disk, mutex, dbw, issued, idx

vars == << pc, mem, disk, mutex, dbw, issued, idx >>

ProcSet == (Callers)

Init == (* Global variables *)
        /\ mem = 0
        /\ disk = 0
        /\ mutex = FALSE
        /\ dbw = FALSE
        /\ issued = [c \in Callers |-> -1]
        (* Process caller *)
        /\ idx = [self \in Callers |-> -1]
        /\ pc = [self \in ProcSet |-> "acq"]

acq(self) == /\ pc[self] = "acq"
             /\ IF self \in Guarded
                   THEN /\ ~mutex
                        /\ mutex' = TRUE
                   ELSE /\ TRUE
                        /\ mutex' = mutex
             /\ pc' = [pc EXCEPT ![self] = "begin"]
             /\ UNCHANGED << mem, disk, dbw, issued, idx >>

begin(self) == /\ pc[self] = "begin"
               /\ ~dbw
               /\ dbw' = TRUE
               /\ pc' = [pc EXCEPT ![self] = "derive"]
               /\ UNCHANGED << mem, disk, mutex, issued, idx >>

derive(self) == /\ pc[self] = "derive"
                /\ idx' = [idx EXCEPT ![self] = mem]
                /\ pc' = [pc EXCEPT ![self] = "write"]
                /\ UNCHANGED << mem, disk, mutex, dbw, issued >>

write(self) == /\ pc[self] = "write"
               /\ disk' = idx[self] + 1
               /\ pc' = [pc EXCEPT ![self] = "commit"]
               /\ UNCHANGED << mem, mutex, dbw, issued, idx >>

commit(self) == /\ pc[self] = "commit"
                /\ dbw' = FALSE
                /\ pc' = [pc EXCEPT ![self] = "cb"]
                /\ UNCHANGED << mem, disk, mutex, issued, idx >>

cb(self) == /\ pc[self] = "cb"
            /\ mem' = idx[self] + 1
            /\ issued' = [issued EXCEPT ![self] = idx[self]]
            /\ pc' = [pc EXCEPT ![self] = "rel"]
            /\ UNCHANGED << disk, mutex, dbw, idx >>

rel(self) == /\ pc[self] = "rel"
             /\ IF self \in Guarded
                   THEN /\ mutex' = FALSE
                   ELSE /\ TRUE
                        /\ mutex' = mutex
             /\ pc' = [pc EXCEPT ![self] = "Done"]
             /\ UNCHANGED << mem, disk, dbw, issued, idx >>

caller(self) == acq(self) \/ begin(self) \/ derive(self) \/ write(self)
                   \/ commit(self) \/ cb(self) \/ rel(self)

(* Allow infinite stuttering to prevent deadlock on termination. *)
Terminating == /\ \A self \in ProcSet: pc[self] = "Done"
               /\ UNCHANGED vars

Next == (\E self \in Callers: caller(self))
           \/ Terminating

Spec == /\ Init /\ [][Next]_vars
        /\ \A self \in Callers : WF_vars(caller(self))

Termination == <>(\A self \in ProcSet: pc[self] = "Done")

\* END TRANSLATION

AllDone == \A k \in Callers : pc[k] = "Done"
\* every successful call obtained an address no other call obtained
Distinct == \A a, b \in Callers : (a # b /\ issued[a] # -1 /\ issued[b] # -1) => issued[a] # issued[b]
\* afterwards the indices form a gap-free range and the database agrees with memory
GapFree == AllDone => /\ {issued[k] : k \in Callers} = 0..(Cardinality(Callers) - 1)
                      /\ disk = Cardinality(Callers) /\ mem = disk
Inv == Distinct /\ GapFree
=============================================================================
