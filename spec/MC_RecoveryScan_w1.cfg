\* C16(b): window 1 (no look-ahead slack), both branches, nested-segwit scope whose change branch uses another address type
CONSTANTS
  W = 1
  Scopes = {"bip49"}
  MaxIdx = 3
  MaxBlocks = 3
  MaxPay = 2
  Unlocked = {FALSE}
  Filler = 0
  MaxHist = 10
INIT Init
NEXT Next
VIEW View
INVARIANT Inv
ACTION_CONSTRAINT EmitStep
CHECK_DEADLOCK FALSE
