\* C03/C08/C10 quick ("issue" family): issuing, extending, lookups, accounts, used flags, sync stamp,
\* lock/unlock with the right passphrase, restart; committed and rolled-back transactions.
\* 1 scope, <= 2 accounts, indices 0..1.
CONSTANTS
  Scopes = {"bip84"}
  MaxIdx = 1
  MaxAccts = 2
  PWs = {"p1"}
  PubPWs = {"pub1"}
  Names = {"alice"}
  XNames = {"xacct"}
  ImpIds = {"k1"}
  MaxSync = 1
  Outcomes = {"commit", "rollback"}
  Acts = {"NextAddr", "Extend", "Lookup", "NewAccount", "ImportXpub", "Rename", "Unlock", "Lock", "MarkUsed", "SetSynced", "Restart"}
  NoRollback = {}
  MaxHist = 60
  FullHist = FALSE
INIT Init
NEXT Next
VIEW View
INVARIANT Inv
PROPERTY IndicesMonotone NothingForgotten RollbackIsNoop UnlockOnlyWithPw WatchOnlyForever
ACTION_CONSTRAINT EmitStep
CHECK_DEADLOCK FALSE
