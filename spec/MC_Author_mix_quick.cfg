\* C07 conformance cases, family "mix": every input mix of 0..3 P2PKH x 0..3 P2WPKH x 0..3 nested P2WPKH x 0..3 P2TR coins (ascending type order),
\* 5 fee rates, amounts at the 6 boundaries (1 sat short, exact fee, +1, dust-1, dust, dust+1), 1 requested output.
\* Every case is exported with the outcome the specification predicts; Inv is checked on every case.
CONSTANTS
  Family = "mix"
  NRandom = 0
INIT Init
NEXT Next
INVARIANT Inv
ACTION_CONSTRAINT EmitCase
CHECK_DEADLOCK FALSE
