\* C14 thorough: every DAG on 0..5 transactions with 0..2 edges per ordered pair, both placements
\* of foreign inputs (119 620 transaction sets), every iteration order of the maps.
CONSTANTS
  MaxN = 5
  MaxMult = 2
  FModes = {1, 2}
SPECIFICATION Spec
INVARIANT Inv EmitCase
PROPERTY Progress
