\* C16(c) thorough: 7 blocks, timestamp gaps {0,1,3,24,47} hours, birthdays around every block time and 46-48 h before it
CONSTANTS
  N = 6
  Steps = {0, 2, 5, 46}
  Offsets = {0, 1, 2, 3, 45, 46, 47, 48}
  MaxT = 120
SPECIFICATION Spec
INVARIANT NotTooLate Emit
PROPERTY Terminates
CHECK_DEADLOCK FALSE
