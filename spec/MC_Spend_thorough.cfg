\* C06/C20 thorough: 5 base coins incl. a coinbase (maturity 2), <= 2 created transactions (incl. self-payments), <= 2 blocks,
\* every backend answer class; outpoint locks on coin 1 (leases: in the random walks; with them and a third block the state graph has ~4e8 transitions).
CONSTANTS
  NBase = 5
  MaxSends = 2
  MaxTip = 2
  Mat = 2
  Answers = {"accepted", "inmempool", "rejected", "notifyfail1", "notifyfail2", "badlabel"}
  Acts = {"Receive", "Mine", "Lock", "Send", "SendExplicit", "SendSelf", "FundOwn", "DryRun", "Restart", "RestartRej", "Resync", "ResyncRej"}
  LockCoins = {1}
  MaxHist = 40
  FullHist = FALSE
INIT Init
NEXT Next
VIEW View
INVARIANT Inv
PROPERTY FailedBroadcastNoTrace
ACTION_CONSTRAINT EmitStep
CHECK_DEADLOCK FALSE
