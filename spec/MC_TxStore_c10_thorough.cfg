\* C10 thorough: all graph families, 3 block heights; behaviours carry the pre-state expectation.
CONSTANTS
  GraphIds = {1,2,3,4,5,6,7,8,9,12}
  MaxTip = 3
  Mat = 2
  LeaseIds = {1}
  MaxNow = 1
  MaxHist = 40
  PathView = FALSE
  FullHist = FALSE
INIT Init
NEXT NextCore
VIEW View
INVARIANT Inv
PROPERTY ReorgSemantics ConfirmSemantics LeaseSemantics
ACTION_CONSTRAINT EmitStepPre
CHECK_DEADLOCK FALSE
