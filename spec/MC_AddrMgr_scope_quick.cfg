\* custom key scope ("scope" stage of C03/C08/C10): the scope does not exist until NewScopedKeyManager is
\* committed; afterwards it issues addresses like any other.  1 custom scope, <= 2 accounts, indices 0..1.
CONSTANTS
  Scopes = {"custom"}
  MaxIdx = 1
  MaxAccts = 2
  PWs = {"p1"}
  PubPWs = {"pub1"}
  Names = {"alice"}
  XNames = {"xacct"}
  ImpIds = {}
  MaxSync = 0
  Outcomes = {"commit", "rollback"}
  Acts = {"NewScope", "NextAddr", "Lookup", "NewAccount", "Unlock", "Lock", "Restart"}
  NoRollback = {}
  MaxHist = 60
  FullHist = FALSE
INIT Init
NEXT Next
VIEW View
INVARIANT Inv
PROPERTY IndicesMonotone NothingForgotten RollbackIsNoop UnlockOnlyWithPw WatchOnlyForever
ACTION_CONSTRAINT EmitStep
CHECK_DEADLOCK FALSE
