\* C17 thorough, ciphertext cases: 3 keys, every plaintext length 0..64 (ciphertexts up to 104 bytes),
\* every single-bit flip (and its undo), every truncation length, one appended byte, Decrypt under every key.
CONSTANTS
  Mode = "aead"
  Keys = {1,2,3}
  PtLens = {0,1,2,3,4,5,6,7,8,9,10,11,12,13,14,15,16,17,18,19,20,21,22,23,24,25,26,27,28,29,30,31,32,33,34,35,36,37,38,39,40,41,42,43,44,45,46,47,48,49,50,51,52,53,54,55,56,57,58,59,60,61,62,63,64}
  MaxFlips = 1
  Passphrases = {"Passw0rd"}
  BlobFlipPws = {"Passw0rd"}
  ParamSets <- ParamSetsOne
  RandomCases = 0
  LongLens <- LongLensStd
  MaxHist = 8
INIT Init
NEXT Next
VIEW View
INVARIANT Inv
ACTION_CONSTRAINT EmitStep
CHECK_DEADLOCK FALSE
