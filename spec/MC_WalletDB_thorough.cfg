\* C11 thorough: one top-level bucket, keys {"", "a", "ab"}, values {"", "x"}, depth 2, sequences 0..2,
\* two readers (two read transactions per behaviour), one write transaction (manual or managed with
\* each outcome) of up to 2 tree-changing operations.  14 168 distinct states / 1 046 037 transitions.
CONSTANTS
  Keys <- KeysS
  Vals <- ValsS
  Tops <- Tops1
  Readers = {"r1", "r2"}
  MaxDepth = 2
  MaxSeq = 2
  MaxWTx = 1
  MaxRTx = 2
  MaxOps = 2
  MaxHist = 60
  FullHist = FALSE
INIT Init
NEXT Next
VIEW View
INVARIANT Inv
PROPERTY Atomicity Visibility ReadYourWrites Isolation ReadOnlyRejects ErrorsChangeNothing CursorOrder Namespaces
ACTION_CONSTRAINT EmitStep
CHECK_DEADLOCK FALSE
