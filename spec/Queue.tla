------------------------------- MODULE Queue -------------------------------
(***************************************************************************)
(* chain.ConcurrentQueue of btcwallet (/repo/chain/queue.go), property C18.*)
(*                                                                         *)
(* What the code does, and what is modelled here literally:                *)
(*  - NewConcurrentQueue(bufferSize): chanIn is UNBUFFERED (rendezvous),   *)
(*    chanOut has capacity bufferSize (B, may be 0), quit is closed by     *)
(*    Stop, overflow is a list owned by the worker goroutine.              *)
(*  - Start(): one worker goroutine, `for { ... }`:                        *)
(*      overflow empty  -> select { item := <-chanIn: INNER | <-quit: ret }*)
(*        INNER: select { chanOut <- item | <-quit: return                 *)
(*                        | default: overflow.PushBack(item) }             *)
(*      overflow not empty -> select { item := <-chanIn: PushBack(item)    *)
(*                        | chanOut <- Front: Remove(Front) | <-quit: ret }*)
(*  - Go semantics of select: a case is ready iff its channel operation    *)
(*    can proceed at once (send: room in the buffer or a receiver parked   *)
(*    on the channel; receive: a sender parked / an item buffered / the    *)
(*    channel closed); one READY case is chosen nondeterministically;      *)
(*    `default` is taken only if NO case is ready; without `default` the   *)
(*    goroutine parks until a case becomes ready.                          *)
(*                                                                         *)
(* Grain of atomicity = one channel operation / one select.  Between the   *)
(* outer receive (label W) and the inner select (label W2) the other       *)
(* goroutines may run; that window is what makes the `default` necessary.  *)
(*                                                                         *)
(* The five boolean constants are fault switches (all FALSE = the code);   *)
(* the MC_Queue_broken_*.cfg configurations set one of them and TLC must   *)
(* then report a violation (non-vacuity of the properties below).          *)
(***************************************************************************)
EXTENDS Integers, Sequences, TLC

CONSTANTS N,            \* the producer sends the items 1..N, in this order
          Bs,           \* set of buffer sizes (B is chosen from it initially)
          PopBack,      \* fault: the non-empty shape sends/removes the BACK of overflow
          NoDefault,    \* fault: inner select without `default` (worker parks on the consumer)
          WeakHandoff,  \* fault: direct hand-off shape taken although overflow is non-empty
          DropWhenFull, \* fault: `default` does not push the item
          NoQuit        \* fault: the outer selects have no `case <-cq.quit`

Last(s)  == s[Len(s)]
Front(s) == SubSeq(s, 1, Len(s) - 1)
Iota(n)  == [i \in 1..n |-> i]

(* --algorithm Queue {
variables
  B \in Bs,            \* cap(chanOut); never changes (a variable so that one run covers all sizes
                       \* and so that QueueTrace.tla can set it per recorded run)
  offering = FALSE,    \* the producer is parked in `chanIn <- next`
  next = 1,            \* the item the producer sends next
  chanOut = <<>>,      \* items buffered in chanOut (B > 0)
  crecv = FALSE,       \* the consumer is parked in `<-chanOut`
  received = <<>>,     \* what the consumer got, in order
  overflow = <<>>,     \* cq.overflow
  quit = FALSE,        \* cq.quit is closed
  item = 0;            \* the worker's local `item` between the outer and the inner select

define {
  \* `chanOut <- x` is ready: room in the buffer, or (B = 0) a parked receiver
  CanSend == IF B = 0 THEN crecv ELSE Len(chanOut) < B
}

\* effect of the worker's `chanOut <- x`
macro Send(x) {
  if (B = 0) { received := Append(received, x); crecv := FALSE }
  else       { chanOut := Append(chanOut, x) }
}

process (producer = "p") {
P:  while (next <= N) {
      offering := TRUE;                     \* arrives at `cq.ChanIn() <- next`
PW:   await ~offering;                      \* the worker received it: the send completed
      next := next + 1;
    }
}

process (worker = "w") {
W:  while (TRUE) {
      \* nextElement := cq.overflow.Front(); if nextElement == nil {
      if (overflow = <<>> \/ (WeakHandoff /\ CanSend)) {
        either {                            \* case item := <-cq.chanIn:       event "in"
          await offering;
          item := next; offering := FALSE;
W2:       either {                          \*   case cq.chanOut <- item:      event "handoff"
            await CanSend;
            Send(item); item := 0;
          } or {                            \*   case <-cq.quit: return        event "quit"
            await quit;
            item := 0;
            goto Done;
          } or {                            \*   default: PushBack(item)       event "push"
            await ~CanSend /\ ~quit /\ ~NoDefault;
            if (~DropWhenFull) { overflow := Append(overflow, item) };
            item := 0;
          }
        } or {                              \* case <-cq.quit: return          event "quit"
          await quit /\ ~NoQuit;
          goto Done;
        }
      } else {
        either {                            \* case item := <-cq.chanIn: PushBack(item)   event "enq"
          await offering;
          overflow := Append(overflow, next); offering := FALSE;
        } or {                              \* case cq.chanOut <- nextElement.Value: Remove(nextElement)   event "out"
          await CanSend;
          if (PopBack) { Send(Last(overflow)); overflow := Front(overflow) }
          else         { Send(Head(overflow)); overflow := Tail(overflow)  }
        } or {                              \* case <-cq.quit: return          event "quit"
          await quit /\ ~NoQuit;
          goto Done;
        }
      }
    }
}

process (consumer = "c") {
C:  while (TRUE) {
      crecv := TRUE;                        \* arrives at `<-cq.ChanOut()` (a slow consumer stays at C)
CT:   either { await ~crecv }               \* B = 0: the worker's send completed the rendezvous
      or {                                  \* B > 0: take the oldest buffered item
        await crecv /\ chanOut # <<>>;
        received := Append(received, Head(chanOut));
        chanOut := Tail(chanOut);
        crecv := FALSE;
      }
    }
}

process (stopper = "s") {
S:  quit := TRUE;                           \* cq.Stop(): close(cq.quit)
}
} *)
\* BEGIN TRANSLATION
VARIABLES pc, B, offering, next, chanOut, crecv, received, overflow, quit, 
          item

(* define statement *)
CanSend == IF B = 0 THEN crecv ELSE Len(chanOut) < B


vars == << pc, B, offering, next, chanOut, crecv, received, overflow, quit, 
           item >>

ProcSet == {"p"} \cup {"w"} \cup {"c"} \cup {"s"}

Init == (* Global variables *)
        /\ B \in Bs
        /\ offering = FALSE
        /\ next = 1
        /\ chanOut = <<>>
        /\ crecv = FALSE
        /\ received = <<>>
        /\ overflow = <<>>
        /\ quit = FALSE
        /\ item = 0
        /\ pc = [self \in ProcSet |-> CASE self = "p" -> "P"
                                        [] self = "w" -> "W"
                                        [] self = "c" -> "C"
                                        [] self = "s" -> "S"]

P == /\ pc["p"] = "P"
     /\ IF next <= N
           THEN /\ offering' = TRUE
                /\ pc' = [pc EXCEPT !["p"] = "PW"]
           ELSE /\ pc' = [pc EXCEPT !["p"] = "Done"]
                /\ UNCHANGED offering
     /\ UNCHANGED << B, next, chanOut, crecv, received, overflow, quit, item >>

PW == /\ pc["p"] = "PW"
      /\ ~offering
      /\ next' = next + 1
      /\ pc' = [pc EXCEPT !["p"] = "P"]
      /\ UNCHANGED << B, offering, chanOut, crecv, received, overflow, quit, 
                      item >>

producer == P \/ PW

W == /\ pc["w"] = "W"
     /\ IF overflow = <<>> \/ (WeakHandoff /\ CanSend)
           THEN /\ \/ /\ offering
                      /\ item' = next
                      /\ offering' = FALSE
                      /\ pc' = [pc EXCEPT !["w"] = "W2"]
                   \/ /\ quit /\ ~NoQuit
                      /\ pc' = [pc EXCEPT !["w"] = "Done"]
                      /\ UNCHANGED <<offering, item>>
                /\ UNCHANGED << chanOut, crecv, received, overflow >>
           ELSE /\ \/ /\ offering
                      /\ overflow' = Append(overflow, next)
                      /\ offering' = FALSE
                      /\ pc' = [pc EXCEPT !["w"] = "W"]
                      /\ UNCHANGED <<chanOut, crecv, received>>
                   \/ /\ CanSend
                      /\ IF PopBack
                            THEN /\ IF B = 0
                                       THEN /\ received' = Append(received, (Last(overflow)))
                                            /\ crecv' = FALSE
                                            /\ UNCHANGED chanOut
                                       ELSE /\ chanOut' = Append(chanOut, (Last(overflow)))
                                            /\ UNCHANGED << crecv, received >>
                                 /\ overflow' = Front(overflow)
                            ELSE /\ IF B = 0
                                       THEN /\ received' = Append(received, (Head(overflow)))
                                            /\ crecv' = FALSE
                                            /\ UNCHANGED chanOut
                                       ELSE /\ chanOut' = Append(chanOut, (Head(overflow)))
                                            /\ UNCHANGED << crecv, received >>
                                 /\ overflow' = Tail(overflow)
                      /\ pc' = [pc EXCEPT !["w"] = "W"]
                      /\ UNCHANGED offering
                   \/ /\ quit /\ ~NoQuit
                      /\ pc' = [pc EXCEPT !["w"] = "Done"]
                      /\ UNCHANGED <<offering, chanOut, crecv, received, overflow>>
                /\ item' = item
     /\ UNCHANGED << B, next, quit >>

W2 == /\ pc["w"] = "W2"
      /\ \/ /\ CanSend
            /\ IF B = 0
                  THEN /\ received' = Append(received, item)
                       /\ crecv' = FALSE
                       /\ UNCHANGED chanOut
                  ELSE /\ chanOut' = Append(chanOut, item)
                       /\ UNCHANGED << crecv, received >>
            /\ item' = 0
            /\ pc' = [pc EXCEPT !["w"] = "W"]
            /\ UNCHANGED overflow
         \/ /\ quit
            /\ item' = 0
            /\ pc' = [pc EXCEPT !["w"] = "Done"]
            /\ UNCHANGED <<chanOut, crecv, received, overflow>>
         \/ /\ ~CanSend /\ ~quit /\ ~NoDefault
            /\ IF ~DropWhenFull
                  THEN /\ overflow' = Append(overflow, item)
                  ELSE /\ TRUE
                       /\ UNCHANGED overflow
            /\ item' = 0
            /\ pc' = [pc EXCEPT !["w"] = "W"]
            /\ UNCHANGED <<chanOut, crecv, received>>
      /\ UNCHANGED << B, offering, next, quit >>

worker == W \/ W2

C == /\ pc["c"] = "C"
     /\ crecv' = TRUE
     /\ pc' = [pc EXCEPT !["c"] = "CT"]
     /\ UNCHANGED << B, offering, next, chanOut, received, overflow, quit, 
                     item >>

CT == /\ pc["c"] = "CT"
      /\ \/ /\ ~crecv
            /\ UNCHANGED <<chanOut, crecv, received>>
         \/ /\ crecv /\ chanOut # <<>>
            /\ received' = Append(received, Head(chanOut))
            /\ chanOut' = Tail(chanOut)
            /\ crecv' = FALSE
      /\ pc' = [pc EXCEPT !["c"] = "C"]
      /\ UNCHANGED << B, offering, next, overflow, quit, item >>

consumer == C \/ CT

S == /\ pc["s"] = "S"
     /\ quit' = TRUE
     /\ pc' = [pc EXCEPT !["s"] = "Done"]
     /\ UNCHANGED << B, offering, next, chanOut, crecv, received, overflow, 
                     item >>

stopper == S

(* Allow infinite stuttering to prevent deadlock on termination. *)
Terminating == /\ \A self \in ProcSet: pc[self] = "Done"
               /\ UNCHANGED vars

Next == producer \/ worker \/ consumer \/ stopper
           \/ Terminating

Spec == Init /\ [][Next]_vars

Termination == <>(\A self \in ProcSet: pc[self] = "Done")

\* END TRANSLATION

-----------------------------------------------------------------------------
(* Properties *)

\* the item the worker holds between the two selects
Hand == IF pc["w"] = "W2" THEN <<item>> ELSE <<>>

\* number of items the worker has received from chanIn so far
Taken == (next - 1) + (IF pc["p"] = "PW" /\ ~offering THEN 1 ELSE 0)

\* everything in flight, oldest first
Pipeline == received \o chanOut \o overflow \o Hand

TypeOK ==
  /\ B \in Bs /\ offering \in BOOLEAN /\ crecv \in BOOLEAN /\ quit \in BOOLEAN
  /\ next \in 1..(N + 1) /\ item \in 0..N
  /\ Len(chanOut) <= B
  /\ Len(Pipeline) <= N

\* C18, order / no duplication: the consumer has received exactly the first items sent, in order
InOrder == received = Iota(Len(received)) /\ Len(received) <= Taken

\* C18, no loss: while the worker runs, every item it accepted is received or still in flight,
\* and the whole pipeline is in sending order
Conservation == pc["w"] # "Done" => Pipeline = Iota(Taken)

\* structural reason for the order: the worker is at the direct hand-off only with an empty overflow list
HandoffOnlyWhenEmpty == pc["w"] = "W2" => overflow = <<>>

\* the same as an action property: a step of the inner select that outputs an item happens with overflow empty
NoOvertake ==
  [][ (pc["w"] = "W2" /\ Len(received') + Len(chanOut') > Len(received) + Len(chanOut))
        => overflow = <<>> ]_vars

Inv == TypeOK /\ InOrder /\ Conservation /\ HandoffOnlyWhenEmpty

\* Fairness.  The consumer and Stop are never fair in SpecSlow: a consumer that stops for ever at C
\* (or never even arrives) is a behaviour of SpecSlow.
SpecSlow == Init /\ [][Next]_vars /\ WF_vars(worker) /\ WF_vars(producer)
SpecFair == SpecSlow /\ WF_vars(consumer)

\* C18, "the producer is never blocked by a slow consumer": all N sends complete (unless the queue is stopped)
ProducerCompletes == <>(quit \/ pc["p"] = "Done")
\* C18, "stopping the queue terminates its worker"
StopTerminates == quit ~> (pc["w"] = "Done")
\* with a consumer that keeps receiving, everything sent is received (unless the queue is stopped)
AllDelivered == <>(quit \/ received = Iota(N))
=============================================================================
