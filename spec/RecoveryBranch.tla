--------------------------- MODULE RecoveryBranch ---------------------------
(***************************************************************************)
(* C16, part (a): the look-ahead bookkeeping of one account branch during  *)
(* recovery (wallet.BranchRecoveryState) together with the way its caller  *)
(* (expandScopeHorizons) derives the window, for an arbitrary set of       *)
(* invalid child indices.  The horizon must always cover W valid children  *)
(* beyond the next unfound index.                                          *)
(***************************************************************************)
EXTENDS Integers, Sequences, FiniteSets, TLC, Json

CONSTANTS W, MaxIdx, MaxHist

VARIABLES invalidIdx,   \* the invalid child indices of this branch (chosen initially, unknown to the code)
          nextUnfound, horizon, marked,   \* the state of BranchRecoveryState
          hist
vars == <<invalidIdx, nextUnfound, horizon, marked, hist>>

NumInvalidInHorizon == Cardinality({i \in marked : nextUnfound <= i /\ i < horizon})
ValidIn(lo, hi) == {i \in lo..(hi - 1) : i \notin invalidIdx}

Init ==
    /\ invalidIdx \in SUBSET (0..MaxIdx) /\ Cardinality(invalidIdx) <= 2
    /\ nextUnfound = 0 /\ horizon = 0 /\ marked = {}
    /\ hist = <<>>

(* ExtendHorizon followed by the caller's derivation loop: derive `delta`   *)
(* valid children starting at the old horizon, marking invalid ones.        *)
RECURSIVE Derive(_, _, _, _)
\* returns <<horizon, marked, seq of MarkInvalidChild calls>> after deriving `need` more valid children from idx
Derive(idx, need, hz, mk) ==
    IF need = 0 THEN <<hz, mk, <<>>>>
    ELSE IF idx \in invalidIdx
         THEN LET r == Derive(idx + 1, need, hz + 1, mk \cup {idx}) IN <<r[1], r[2], <<idx>> \o r[3]>>
         ELSE Derive(idx + 1, need - 1, hz, mk)

Expand ==
    LET minValid == nextUnfound + W + NumInvalidInHorizon
        cur   == horizon
        delta == IF cur >= minValid THEN 0 ELSE minValid - cur
        hz0   == IF cur >= minValid THEN cur ELSE minValid
        r     == Derive(cur, delta, hz0, marked)
    IN  /\ r[1] <= MaxIdx + 1
        /\ horizon' = r[1] /\ marked' = r[2]
        /\ UNCHANGED <<invalidIdx, nextUnfound>>
        /\ hist' = Append(hist, [op |-> "Expand", cur |-> cur, delta |-> delta, invalid |-> r[3],
                                 horizon |-> r[1], nextUnfound |-> nextUnfound,
                                 ninv |-> Cardinality({i \in r[2] : nextUnfound <= i /\ i < r[1]})])

(* an address inside the horizon is found used *)
ReportFound(i) ==
    /\ i < horizon /\ i \notin invalidIdx
    /\ IF i >= nextUnfound
       THEN /\ nextUnfound' = i + 1
            /\ marked' = {j \in marked : j >= i}
       ELSE UNCHANGED <<nextUnfound, marked>>
    /\ UNCHANGED <<invalidIdx, horizon>>
    /\ hist' = Append(hist, [op |-> "ReportFound", i |-> i,
                             nextUnfound |-> nextUnfound', horizon |-> horizon,
                             ninv |-> Cardinality({j \in marked' : nextUnfound' <= j /\ j < horizon})])

Next == Expand \/ \E i \in 0..MaxIdx : ReportFound(i)
Spec == Init /\ [][Next]_vars

\* after every expansion the window holds W valid children beyond nextUnfound
WindowCovered ==
    (Len(hist) > 0 /\ hist[Len(hist)].op = "Expand") => Cardinality(ValidIn(nextUnfound, horizon)) >= W
\* the code only ever marks children that really are invalid, and the horizon never shrinks
MarkedAreInvalid == marked \subseteq invalidIdx
Inv == WindowCovered /\ MarkedAreInvalid /\ nextUnfound <= horizon

View == <<invalidIdx, nextUnfound, horizon, marked>>
EmitStep == PrintT(<<"TRACE", ToJson([w |-> W, invalid |-> invalidIdx, steps |-> hist'])>>)
=============================================================================
