\* C16(b) quick: window 2, one key scope, indices 0..3, up to 3 blocks with <= 2 payments each, locked
CONSTANTS
  W = 2
  Scopes = {"bip84"}
  MaxIdx = 3
  MaxBlocks = 3
  MaxPay = 2
  Unlocked = {FALSE}
  Filler = 0
  MaxHist = 10
INIT Init
NEXT Next
VIEW View
INVARIANT Inv
ACTION_CONSTRAINT EmitStep
CHECK_DEADLOCK FALSE
