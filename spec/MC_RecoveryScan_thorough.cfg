\* C16(b) thorough: window 3, two key scopes, indices 0..3, up to 2 blocks with <= 2 payments, locked and unlocked
CONSTANTS
  W = 3
  Scopes = {"bip84", "bip86"}
  MaxIdx = 3
  MaxBlocks = 2
  MaxPay = 2
  Unlocked = {FALSE, TRUE}
  Filler = 0
  MaxHist = 10
INIT Init
NEXT Next
VIEW View
INVARIANT Inv
ACTION_CONSTRAINT EmitStep
CHECK_DEADLOCK FALSE
