\* Bucket-layer refinement: the transcribed algorithms give the fact-level answers (C01, C02, C12, C13).
CONSTANTS
  GraphIds = {1,2,3,4,5,6,7,8,9,10,11,12}
  MaxTip = 2
  Mat = 2
  LeaseIds = {1}
  MaxNow = 1
  MaxHist = 40
  PathView = FALSE
  FullHist = FALSE
INIT InitImpl
NEXT NextImpl
VIEW ImplView
INVARIANT ImplInv
CHECK_DEADLOCK FALSE
