---------------------------- MODULE TxStoreImpl ----------------------------
(***************************************************************************)
(* The bucket-shaped layer of the transaction store: a transcription of    *)
(* how wtxmgr keeps its data (db.go) and of the algorithms in tx.go /      *)
(* unconfirmed.go / query.go, run in lock step with the fact-level         *)
(* specification TxStore.tla.  TLC checks that after every action the      *)
(* transcribed queries (the running balance counter with its three         *)
(* correction passes, the unspent index, the credit / debit records) give  *)
(* exactly what the fact-level operators demand, i.e. that the algorithms  *)
(* the code is built from implement C01, C02, C12 and C13 for every        *)
(* history inside the bound.  (The code itself is bound to TxStore.tla by  *)
(* replay; this module is the design-level argument.)                      *)
(*                                                                         *)
(* Buckets:                                                                *)
(*   bal        running "mined balance" counter                            *)
(*   unspentIdx outpoints of mined credits not spent by a mined tx         *)
(*   creds      mined credit records: outpoint -> [spent]  (amount, change *)
(*              and block are functions of the static graph / `mined`)     *)
(*   debits     mined debit records <<t, input position>>                  *)
(*   txrec      mined transaction records                                  *)
(*   blocks     block records: height -> sequence of transactions          *)
(*   um         unmined transaction records                                *)
(*   umCred     unmined credits                                            *)
(*   umIn       unmined inputs: outpoint -> sequence of spending txs       *)
(* Leases live in the `lease` variable of TxStore.tla (one bucket, keyed   *)
(* by outpoint, expiry compared lazily).                                   *)
(***************************************************************************)
EXTENDS TxStore

VARIABLES bal, unspentIdx, creds, debits, txrec, blocks, um, umCred, umIn

ivars == <<bal, unspentIdx, creds, debits, txrec, blocks, um, umCred, umIn>>
allvars == <<vars, ivars>>

AllOps == UNION {Outs(t) : t \in Tx} \cup UNION {Ins(t) : t \in Tx}
I == [bal |-> bal, unspentIdx |-> unspentIdx, creds |-> creds, debits |-> debits, txrec |-> txrec,
      blocks |-> blocks, um |-> um, umCred |-> umCred, umIn |-> umIn]
SetI(x) == /\ bal' = x.bal /\ unspentIdx' = x.unspentIdx /\ creds' = x.creds /\ debits' = x.debits
           /\ txrec' = x.txrec /\ blocks' = x.blocks /\ um' = x.um /\ umCred' = x.umCred /\ umIn' = x.umIn

InitI ==
    /\ bal = 0 /\ unspentIdx = {} /\ creds = [op \in {} |-> FALSE] /\ debits = {}
    /\ txrec = {} /\ blocks = [h \in {} |-> <<>>] /\ um = {} /\ umCred = {}
    /\ umIn = [op \in {} |-> <<>>]

RECURSIVE SetToSeqOps(_), HeightsDown(_)
SetToSeqOps(S) == IF S = {} THEN <<>> ELSE LET e == CHOOSE q \in S : TRUE IN <<e>> \o SetToSeqOps(S \ {e})
HeightsDown(S) == IF S = {} THEN <<>> ELSE LET m == CHOOSE q \in S : \A r \in S : r <= q IN <<m>> \o HeightsDown(S \ {m})

SeqWithout(s, x) == SelectSeq(s, LAMBDA y : y # x)
Spenders(x, op) == IF op \in DOMAIN x.umIn THEN x.umIn[op] ELSE <<>>

----------------------------------------------------------------------------
(* removeConflict (unconfirmed.go): for every output, recursively remove    *)
(* every unmined spender still present, delete the unmined credit; then     *)
(* drop this tx from the unmined-inputs lists of its inputs and delete its  *)
(* record.                                                                  *)
RECURSIVE RemoveConflict(_, _), RemoveSpendersOf(_, _, _)
RemoveSpendersOf(x, sp, k) ==      \* sp: sequence of spender txs, processed from position k
    IF k > Len(sp) THEN x
    ELSE IF sp[k] \in x.um
         THEN RemoveSpendersOf(RemoveConflict(x, sp[k]), sp, k + 1)
         ELSE RemoveSpendersOf(x, sp, k + 1)

RECURSIVE RemoveOutputs(_, _, _)
RemoveOutputs(x, t, i) ==
    IF i >= G.nouts[t] THEN x
    ELSE LET op == <<t, i>>
             y  == RemoveSpendersOf(x, Spenders(x, op), 1)
         IN  RemoveOutputs([y EXCEPT !.umCred = @ \ {op}], t, i + 1)

DropInputs(x, t) ==
    [x EXCEPT !.umIn = [op \in {o \in DOMAIN x.umIn : SeqWithout(x.umIn[o], t) # <<>> \/ o \notin Ins(t)} |->
                           IF op \in Ins(t) THEN SeqWithout(x.umIn[op], t) ELSE x.umIn[op]]]

RemoveConflict(x, t) ==
    LET y == RemoveOutputs(x, t, 0)
        z == DropInputs(y, t)
    IN  [z EXCEPT !.um = @ \ {t}]

(* insertMemPoolTx + AddCredit(nil) as wallet.addRelevantTx calls them *)
ImplSeeUnmined(t) ==
    IF t \in um \/ t \in txrec                       \* TxDetails finds it: ErrDuplicateTx, nothing else happens
    THEN UNCHANGED ivars
    ELSE LET ins == Ins(t)
             withIn == [I EXCEPT !.um = @ \cup {t},
                                 !.umIn = [op \in DOMAIN umIn \cup ins |->
                                             IF op \in ins THEN Append(Spenders(I, op), t) ELSE umIn[op]]]
         IN  SetI([withIn EXCEPT !.umCred = @ \cup Mine(t)])

(* insertMinedTx: block record, tx record, updateMinedBalance (debits for    *)
(* inputs found in the unspent index; unmined credits become mined unspent   *)
(* credits), deleteUnminedTx, removeDoubleSpends, unlock of the inputs;      *)
(* then AddCredit(block) for outputs that are not credits yet.               *)
RECURSIVE DoubleSpends(_, _, _, _)
DoubleSpends(x, t, insSeq, k) ==
    IF k > Len(insSeq) THEN x
    ELSE LET sp == SeqWithout(Spenders(x, insSeq[k]), t)
         IN  DoubleSpends(RemoveSpendersOf(x, sp, 1), t, insSeq, k + 1)

ImplConfirm(t, h) ==
    IF t \in txrec /\ mined[t] = h
    THEN UNCHANGED ivars
    ELSE LET spentOps == {op \in Ins(t) : op \in unspentIdx}          \* debits only for indexed credits
             moved    == {op \in Outs(t) : op \in umCred}             \* unmined credits of this tx
             a == [I EXCEPT
                     !.blocks = IF h \in DOMAIN blocks THEN [blocks EXCEPT ![h] = Append(@, t)]
                                ELSE [k \in DOMAIN blocks \cup {h} |-> IF k = h THEN <<t>> ELSE blocks[k]],
                     !.txrec = @ \cup {t},
                     !.creds = [op \in DOMAIN creds \cup moved |->
                                  IF op \in spentOps THEN TRUE ELSE IF op \in moved THEN FALSE ELSE creds[op]],
                     !.debits = @ \cup {<<t, k>> : k \in {k \in 1..Len(G.ins[t]) : G.ins[t][k] \in spentOps}},
                     !.unspentIdx = (@ \ spentOps) \cup moved,
                     !.bal = @ - SumVal(spentOps) + SumVal(moved)]
             \* deleteUnminedTx (only if it was unmined)
             b == IF t \in um
                  THEN [DropInputs(a, t) EXCEPT !.umCred = @ \ Outs(t), !.um = @ \ {t}]
                  ELSE a
             c == DoubleSpends(b, t, G.ins[t], 1)
             \* AddCredit(block) for own outputs without a credit record yet
             fresh == {op \in Mine(t) : op \notin DOMAIN c.creds}
             d == [c EXCEPT !.creds = [op \in DOMAIN c.creds \cup fresh |-> IF op \in fresh THEN FALSE ELSE c.creds[op]],
                            !.unspentIdx = @ \cup fresh,
                            !.bal = @ + SumVal(fresh)]
         IN  SetI(d)

(* rollback: blocks from the top down to h; coinbases are deleted with their *)
(* credits and remembered; other txs move to the unmined buckets (inputs     *)
(* re-listed, debits undone if the spent credit still exists, credits moved);*)
(* afterwards unmined spenders of the remembered coinbase outputs go.        *)
RECURSIVE RollTxs(_, _, _, _), RollBlocks(_, _, _)
\* returns <<state, coinbase outputs remembered>>
RollTxs(x, txs, k, cbOuts) ==
    IF k > Len(txs) THEN <<x, cbOuts>>
    ELSE LET t == txs[k] IN
         IF IsCb(t)
         THEN LET own == {op \in Outs(t) : op \in DOMAIN x.creds}
                  y == [x EXCEPT !.txrec = @ \ {t},
                                 !.bal = @ - SumVal(own \cap x.unspentIdx),
                                 !.unspentIdx = @ \ own,
                                 !.creds = [op \in DOMAIN x.creds \ own |-> x.creds[op]]]
              IN  RollTxs(y, txs, k + 1, cbOuts \o SetToSeqOps(Outs(t)))
         ELSE LET debs == {kk \in 1..Len(G.ins[t]) : <<t, kk>> \in x.debits}
                  \* credits spent by this tx that still exist become unspent again
                  back == {G.ins[t][kk] : kk \in {q \in debs : G.ins[t][q] \in DOMAIN x.creds}}
                  own  == {op \in Outs(t) : op \in DOMAIN x.creds}
                  y == [x EXCEPT !.txrec = @ \ {t},
                                 !.um = @ \cup {t},
                                 !.umIn = [op \in DOMAIN x.umIn \cup Ins(t) |->
                                             IF op \in Ins(t) THEN Append(Spenders(x, op), t) ELSE x.umIn[op]],
                                 !.debits = @ \ {<<t, kk>> : kk \in debs},
                                 !.creds = [op \in DOMAIN x.creds \ own |-> IF op \in back THEN FALSE ELSE x.creds[op]],
                                 !.unspentIdx = (@ \cup back) \ own,
                                 !.umCred = @ \cup own,
                                 !.bal = @ + SumVal(back) - SumVal(own \cap x.unspentIdx)]
              IN  RollTxs(y, txs, k + 1, cbOuts)

RollBlocks(x, hs, cbOuts) ==       \* hs: heights to remove, highest first
    IF hs = <<>> THEN <<x, cbOuts>>
    ELSE LET r == RollTxs(x, x.blocks[Head(hs)], 1, cbOuts)
         IN  RollBlocks(r[1], Tail(hs), r[2])

RECURSIVE RemoveCbSpenders(_, _, _)
RemoveCbSpenders(x, ops, k) ==
    IF k > Len(ops) THEN x
    ELSE RemoveCbSpenders(RemoveSpendersOf(x, Spenders(x, ops[k]), 1), ops, k + 1)

ImplRollback(h) ==
    LET hs == HeightsDown({k \in DOMAIN blocks : k >= h})
        r  == RollBlocks(I, hs, <<>>)
        y  == [r[1] EXCEPT !.blocks = [k \in {q \in DOMAIN blocks : q < h} |-> blocks[k]]]
    IN  SetI(RemoveCbSpenders(y, r[2], 1))

ImplAbandon(t) == SetI(RemoveConflict(I, t))

----------------------------------------------------------------------------
(* Queries as the code computes them *)
ImplActive(op) == Active(op)          \* isLockedOutput: the lease bucket is the `lease` variable

ImplBalance(mc, s) ==
    LET stop == IF Mat > mc THEN Mat ELSE mc
        \* pass 1: mined unspent credits that are leased or spent by an unmined tx
        p1 == {op \in unspentIdx : ImplActive(op) \/ Spenders(I, op) # <<>>}
        \* pass 2: recent blocks: too young or immature, unless already removed in pass 1 or spent
        recent == {t \in txrec : mined[t] >= s - stop}
        p2 == {op \in UNION {Outs(t) : t \in recent} :
                  /\ ~ImplActive(op) /\ Spenders(I, op) = <<>>
                  /\ op \in DOMAIN creds /\ ~creds[op]
                  /\ LET confs == s - mined[op[1]] + 1 IN confs < mc \/ (IsCb(op[1]) /\ confs < Mat)}
        \* pass 3: unmined credits when minconf = 0
        p3 == IF mc = 0 THEN {op \in umCred : ~ImplActive(op) /\ Spenders(I, op) = <<>>} ELSE {}
    IN  bal - SumVal(p1) - SumVal(p2) + SumVal(p3)

ImplUtxo == {op \in unspentIdx \cup umCred : ~ImplActive(op) /\ Spenders(I, op) = <<>>}

ImplDetails(t) ==
    IF t \in um
    THEN [known |-> TRUE, h |-> 0,
          credits |-> {[i |-> op[2], amt |-> Val(op), chg |-> op[2] \in G.chg[t], spent |-> Spenders(I, op) # <<>>]
                          : op \in Outs(t) \cap umCred},
          debits |-> {[j |-> k - 1, amt |-> Val(G.ins[t][k])]
                          : k \in {k \in 1..Len(G.ins[t]) : G.ins[t][k] \in unspentIdx \/ G.ins[t][k] \in umCred}}]
    ELSE IF t \in txrec
    THEN [known |-> TRUE, h |-> mined[t],
          credits |-> {[i |-> op[2], amt |-> Val(op), chg |-> op[2] \in G.chg[t],
                        spent |-> creds[op] \/ Spenders(I, op) # <<>>]
                          : op \in {o \in Outs(t) : o \in DOMAIN creds}},
          debits |-> {[j |-> k - 1, amt |-> Val(G.ins[t][k])] : k \in {k \in 1..Len(G.ins[t]) : <<t, k>> \in debits}}]
    ELSE [known |-> FALSE, h |-> 0, credits |-> {}, debits |-> {}]

----------------------------------------------------------------------------
InitImpl == Init /\ InitI

NextImpl ==
    \/ \E t \in Tx : SeeUnmined(t) /\ ImplSeeUnmined(t)
    \/ \E t \in Tx : Confirm(t) /\ ImplConfirm(t, tip)
    \/ \E t \in Tx : Abandon(t) /\ ImplAbandon(t)
    \/ \E t \in Tx : AbandonAgain(t) /\ ImplAbandon(t)
    \/ NewBlock /\ UNCHANGED ivars
    \/ \E h \in 1..(MaxTip+1) : Rollback(h) /\ ImplRollback(h)
    \/ LeaseNext /\ UNCHANGED ivars

SpecImpl == InitImpl /\ [][NextImpl]_allvars

(* The algorithms compute what the properties demand. *)
BalanceRight == \A p \in BalGrid : ImplBalance(p[1], p[2]) = Balance(p[1], p[2])
UtxoRight    == ImplUtxo = UtxoSet
UnminedRight == um = unm
DetailsRight == \A t \in Tx : ImplDetails(t) = Details(t)
BucketsConsistent ==
    /\ txrec = Confirmed
    /\ unspentIdx = {op \in DOMAIN creds : ~creds[op]}
    /\ bal = SumVal(unspentIdx)
    /\ \A h \in DOMAIN blocks : {blocks[h][k] : k \in 1..Len(blocks[h])} = {t \in Confirmed : mined[t] = h}
ImplInv == BalanceRight /\ UtxoRight /\ UnminedRight /\ DetailsRight /\ BucketsConsistent

ImplView == <<facts, ivars>>
=============================================================================
