\* non-vacuity: caller 3 does not take the mutex; TLC must find two calls receiving the same index
CONSTANTS
  Callers = {1, 2, 3}
  Guarded = {1, 2}
SPECIFICATION Spec
INVARIANT Inv
