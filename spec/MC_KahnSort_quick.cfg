\* C14 quick: every DAG on 0..4 transactions with 0..2 edges per ordered pair, both placements of
\* foreign inputs (1 522 transaction sets), every iteration order of the maps; Termination as a
\* temporal property as well.
CONSTANTS
  MaxN = 4
  MaxMult = 2
  FModes = {1, 2}
SPECIFICATION Spec
INVARIANT Inv EmitCase
PROPERTY Progress Termination
