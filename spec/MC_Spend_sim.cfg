\* random walks: 6 base coins (coinbase, both scopes, both accounts), <= 4 created transactions (chains of
\* unconfirmed change spends), <= 4 blocks, locks and leases on every coin
CONSTANTS
  NBase = 6
  MaxSends = 4
  MaxTip = 4
  Mat = 2
  Answers = {"accepted", "inmempool", "rejected", "notifyfail1", "notifyfail2"}
  Acts = {"Receive", "Mine", "Lock", "Lease", "Send", "SendExplicit", "FundOwn", "DryRun", "Restart", "RestartRej"}
  LockCoins = {1, 2, 3, 5, 7, 8}
  MaxHist = 28
  FullHist = TRUE
INIT Init
NEXT Next
INVARIANT Inv EmitFull
CHECK_DEADLOCK FALSE
