\* random walks: 10 base coins (coinbase, four key scopes = four address types, two accounts, two payments to imported keys of two scopes), <= 4 created transactions (chains of
\* unconfirmed change spends), <= 4 blocks, locks and leases on every coin
CONSTANTS
  NBase = 10
  MaxSends = 4
  MaxTip = 4
  Mat = 2
  Answers = {"accepted", "inmempool", "rejected", "notifyfail1", "notifyfail2", "badlabel"}
  Acts = {"Receive", "Mine", "Lock", "Lease", "Send", "SendExplicit", "SendSelf", "FundOwn", "DryRun", "Restart", "RestartRej", "Resync", "ResyncRej"}
  LockCoins = {1, 2, 3, 5, 7, 9, 11, 12}
  MaxHist = 28
  FullHist = TRUE
INIT Init
NEXT Next
INVARIANT Inv EmitFull
CHECK_DEADLOCK FALSE
