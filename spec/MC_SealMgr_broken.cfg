\* the broken design (key used outside the manager mutex): TLC must find a ciphertext sealed under the wiped key
CONSTANTS
  UseMutex = FALSE
  KeyTypes = {"priv"}
  MaxOps = 1
  MaxHist = 40
INIT Init
NEXT Next
VIEW View
INVARIANT SealedUnderRealKey
CHECK_DEADLOCK FALSE
