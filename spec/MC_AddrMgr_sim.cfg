\* random walks: 2 scopes, up to 3 accounts, every action
CONSTANTS
  Scopes = {"bip84", "bip49"}
  MaxIdx = 3
  MaxAccts = 3
  PWs = {"p1", "p2", "p3"}
  PubPWs = {"pub1", "pub2"}
  Names = {"alice", "bob"}
  XNames = {"xacct"}
  ImpIds = {"k1", "s1"}
  MaxSync = 3
  Outcomes = {"commit", "rollback"}
  Acts = {"NextAddr", "Extend", "Lookup", "DerivePath", "DeriveCache", "NewAccount", "ImportXpub", "Rename", "Import", "Unlock", "Lock", "ChangePriv", "ChangePub", "MarkUsed", "SetSynced", "ConvertWO", "Restart"}
  NoRollback = {}
  MaxHist = 30
  FullHist = TRUE
INIT Init
NEXT Next
INVARIANT Inv EmitFull
CHECK_DEADLOCK FALSE
