\* C06/C20 quick: 4 base coins (2 accounts, 2 key scopes), <= 2 created transactions, <= 2 blocks,
\* every backend answer class; outpoint lock on one coin; no leases / coinbase (see thorough).
CONSTANTS
  NBase = 4
  MaxSends = 2
  MaxTip = 2
  Mat = 2
  Answers = {"accepted", "inmempool", "rejected", "notifyfail1", "notifyfail2", "badlabel"}
  Acts = {"Receive", "Mine", "Lock", "Send", "SendExplicit", "FundOwn", "DryRun", "Restart", "RestartRej", "Resync", "ResyncRej"}
  LockCoins = {1}
  MaxHist = 40
  FullHist = FALSE
INIT Init
NEXT Next
VIEW View
INVARIANT Inv
PROPERTY FailedBroadcastNoTrace
ACTION_CONSTRAINT EmitStep
CHECK_DEADLOCK FALSE
