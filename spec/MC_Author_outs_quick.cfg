\* C07 conformance cases, family "outs": requested output counts {0,1,2,251,252,253} x 5 output script types x 3 change script types x 5 rates x 6 boundary amounts x 6 input mixes.
\* Every case is exported with the outcome the specification predicts; Inv is checked on every case.
CONSTANTS
  Family = "outs"
  NRandom = 0
INIT Init
NEXT Next
INVARIANT Inv
ACTION_CONSTRAINT EmitCase
CHECK_DEADLOCK FALSE
