\* C02/C13 thorough: all graph families, 3 block heights, states reached through a reorg kept apart (PathView).
CONSTANTS
  GraphIds = {1,2,3,4,5,6,7,8,9,12}
  MaxTip = 3
  Mat = 2
  LeaseIds = {1}
  MaxNow = 1
  MaxHist = 40
  PathView = TRUE
  FullHist = FALSE
INIT Init
NEXT NextCore
VIEW View
INVARIANT Inv
PROPERTY ReorgSemantics ConfirmSemantics LeaseSemantics
ACTION_CONSTRAINT EmitStep
CHECK_DEADLOCK FALSE
