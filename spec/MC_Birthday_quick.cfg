\* C16(c) quick: 5 blocks, timestamp gaps {0,1,3,24,47} hours, birthdays around every block time and 46-48 h before it
CONSTANTS
  N = 4
  Steps = {0, 1, 3, 24, 47}
  Offsets = {0, 1, 2, 3, 45, 46, 47, 48}
  MaxT = 120
SPECIFICATION Spec
INVARIANT NotTooLate Emit
PROPERTY Terminates
CHECK_DEADLOCK FALSE
