-------------------------------- MODULE Seal --------------------------------
(***************************************************************************)
(* snacl (btcwallet's sealing layer) as an IDEAL authenticated cipher plus *)
(* a passphrase-derived key with stored parameters.  Serves C17.           *)
(*                                                                         *)
(* The cryptography is assumed, not modelled: XSalsa20-Poly1305 is the     *)
(* ideal primitive `Open` (a box opens iff it is the unmodified output of  *)
(* `Seal` under the same key and nonce), scrypt is an injective function   *)
(* `Kdf` of (passphrase, salt, N, r, p) and SHA-256 an injective `Digest`. *)
(* What is specified -- and decided by replay on the real code -- is the   *)
(* CONTRACT around the primitives, shaped like snacl.go:                   *)
(*   CryptoKey.Encrypt : fresh nonce, output = nonce ++ secretbox          *)
(*   CryptoKey.Decrypt : length check, split, Open, error unless opened    *)
(*   NewSecretKey / DeriveKey (digest comparison; the key field is         *)
(*   overwritten even when the passphrase is wrong) / Zero                 *)
(*   Marshal / Unmarshal (exactly 88 bytes) / Restart                      *)
(* Bytes are abstract: a ciphertext value is identified by the Encrypt     *)
(* call that produced it (key, plaintext, nonce serial) plus the           *)
(* modifications applied since: its current length and the set of flipped  *)
(* bit positions.  Real layout used for exported positions:                *)
(*   bytes 0..23 nonce | 24..39 Poly1305 tag | 40.. encrypted body         *)
(***************************************************************************)
EXTENDS Integers, Sequences, FiniteSets, TLC, Json, IOUtils

CONSTANTS
    Mode,         \* "aead": ciphertext cases; "pass": passphrase-key cases;
                  \* "random": seeded random single-bit flips on long plaintexts
    Keys,         \* crypto-key identifiers, e.g. {1,2,3}
    PtLens,       \* plaintext lengths explored in mode "aead"
    MaxFlips,     \* bits that may be flipped at the same time (a flipped bit may always be flipped back)
    Passphrases,  \* passphrases; every ordered pair (creator, candidate) is explored
    BlobFlipPws,  \* creator passphrases for which every single-bit alteration of the stored salt/digest is explored
    ParamSets,    \* scrypt parameter triples <<N, r, p>>
    RandomCases,  \* number of random cases (mode "random")
    LongLens,     \* sequence of plaintext lengths used by the random cases
    MaxHist       \* bound on the recorded history (safety net; never reached)

VARIABLES
    ct,     \* the ciphertext under attack (record, live = FALSE: none yet)
    nn,     \* number of Encrypt calls so far = serial of the last nonce drawn
    made,   \* values <<k, l, n>> of all ciphertexts ever produced by Encrypt
    sk,     \* the passphrase-derived secret key (record, live = FALSE: none)
    probe,  \* a ciphertext sealed under sk's key when it was first created
    blob,   \* marshalled parameters of sk (record, live = FALSE: none)
    plan,   \* mode "random": the case this behaviour executes
    hist    \* recorded operations with the result the specification expects

state == <<ct, nn, made, sk, probe, blob, plan>>
vars  == <<ct, nn, made, sk, probe, blob, plan, hist>>

\* values for the cfg files (a cfg cannot spell tuples): CONSTANT ParamSets <- ParamSetsStd ...
ParamSetsOne == {<<16, 8, 1>>}
ParamSetsTwo == {<<16, 8, 1>>, <<32, 4, 2>>}
ParamSetsStd == {<<16, 8, 1>>, <<32, 4, 2>>, <<1024, 1, 1>>}
LongLensStd  == <<256, 1000, 4096, 333, 2048>>

----------------------------------------------------------------------------
(* Layout (snacl.go / secretbox) *)
NonceSize  == 24
TagSize    == 16                     \* secretbox.Overhead
KeySize    == 32
DigestSize == 32
BlobLen    == KeySize + DigestSize + 24   \* salt, digest, N, r, p as three uint64
Full(l)    == NonceSize + TagSize + l     \* length of an unmodified ciphertext of an l-byte plaintext
Region(byte) == IF byte < NonceSize THEN "nonce"
                ELSE IF byte < NonceSize + TagSize THEN "tag" ELSE "body"

(* Ideal primitives: injective, collision-free symbolic terms *)
RawKey(i)        == <<"raw", i>>
ZeroKey          == <<"zero">>
Kdf(pw, salt, p) == <<"scrypt", pw, salt, p[1], p[2], p[3]>>
Digest(key)      == <<"sha256", key>>

NoCt   == [live |-> FALSE, k |-> ZeroKey, l |-> 0, n |-> 0, cur |-> 0, flips |-> {}]
\* salt = <<serial, flipped bit positions>>; dmod = flipped bit positions of the stored digest
NoSk   == [live |-> FALSE, pw |-> "", salt |-> <<0, {}>>, ps |-> <<0,0,0>>, digest |-> Digest(ZeroKey), dmod |-> {}, key |-> ZeroKey]
\* flips = altered bit positions of the marshalled blob (bits 0..255 salt, 256..511 digest)
NoBlob == [live |-> FALSE, salt |-> <<0, {}>>, ps |-> <<0,0,0>>, digest |-> Digest(ZeroKey), flips |-> {}]
NoPlan == [i |-> 0, k |-> 0, l |-> 0, bit |-> 0]

(* Encrypt: draws nonce number n (an ideal random source never repeats) *)
Sealed(key, l, n) == [live |-> TRUE, k |-> key, l |-> l, n |-> n, cur |-> Full(l), flips |-> {}]
Intact(c)         == c.flips = {} /\ c.cur = Full(c.l)
(* secretbox.Open on (c minus its first 24 bytes) with the nonce taken from *)
(* those bytes: succeeds iff nothing was modified and the key is the one    *)
(* that sealed.                                                             *)
Open(c, key)      == Intact(c) /\ c.k = key
(* CryptoKey.Decrypt, step by step as in snacl.go *)
DecryptResult(c, key) ==
    IF c.cur < NonceSize THEN [class |-> "error", why |-> "malformed"]
    ELSE IF Open(c, key) THEN [class |-> "ok", why |-> "same-bytes"]
    ELSE [class |-> "error", why |-> "decryptfailed"]

(* SecretKey.DeriveKey: the key field is overwritten first, then compared *)
Derived(s, cand)      == Kdf(cand, s.salt, s.ps)
DeriveResult(s, cand) == IF s.dmod = {} /\ Digest(Derived(s, cand)) = s.digest THEN "ok" ELSE "error"
(* the SecretKey that Unmarshal builds from the (possibly altered) blob b *)
SaltBits   == 8 * KeySize
Loaded(s, b) == [s EXCEPT !.salt = <<b.salt[1], {x \in b.flips : x < SaltBits}>>, !.ps = b.ps, !.digest = b.digest,
                          !.dmod = {x \in b.flips : x >= SaltBits}, !.key = ZeroKey]
(* SecretKey.Unmarshal accepts exactly BlobLen bytes *)
UnmarshalResult(len)  == IF len = BlobLen THEN "ok" ELSE "error"

----------------------------------------------------------------------------
(* Seeded pseudo-random positions (TLC integers are 32 bit: stay below 2^31) *)
Seed == IF "VERIF_SEED" \in DOMAIN IOEnv THEN atoi(IOEnv.VERIF_SEED) % 1000 ELSE 1
Rnd(i, range) == ((((i * 7919 + Seed * 104729) % 1000003) * 2003 + 12345) % 1000003) % range

PlanSet == {[i |-> i,
             k |-> 1 + (i % Cardinality(Keys)),
             l |-> LongLens[1 + (i % Len(LongLens))],
             bit |-> Rnd(i, 8 * Full(LongLens[1 + (i % Len(LongLens))]))] : i \in 1..RandomCases}

----------------------------------------------------------------------------
Step(op, a, ret) == hist' = Append(hist, [op |-> op, a |-> a, ret |-> ret])

Init ==
    /\ ct = NoCt /\ nn = 0 /\ made = {}
    /\ sk = NoSk /\ probe = NoCt /\ blob = NoBlob
    /\ plan \in (IF Mode = "random" THEN PlanSet ELSE {NoPlan})
    /\ hist = <<>>

(* ---- ciphertext actions (modes "aead" and "random") ---- *)
Encrypt(k, l) ==
    /\ Mode # "pass" /\ ~ct.live /\ nn = 0
    /\ Mode = "random" => (k = plan.k /\ l = plan.l)
    /\ ct' = Sealed(RawKey(k), l, 1) /\ nn' = 1 /\ made' = {<<RawKey(k), l, 1>>}
    /\ UNCHANGED <<sk, probe, blob, plan>>
    /\ Step("Encrypt", [k |-> k, len |-> l], "ok")

(* the same plaintext under the same key once more: must give another value *)
EncryptAgain ==
    /\ ct.live /\ Intact(ct) /\ nn = 1 /\ Mode = "aead"
    /\ ct' = Sealed(ct.k, ct.l, 2) /\ nn' = 2 /\ made' = made \cup {<<ct.k, ct.l, 2>>}
    /\ UNCHANGED <<sk, probe, blob, plan>>
    /\ Step("EncryptAgain", <<>>,
            IF <<ct.k, ct.l, 2>> \in made THEN "equal" ELSE "differs")

FlipBody(b) ==
    /\ ct.live /\ nn = 1 /\ ct.cur >= Full(ct.l) /\ b \in 0..(8 * ct.cur - 1)
    /\ b \in ct.flips \/ Cardinality(ct.flips) < MaxFlips
    /\ ct' = [ct EXCEPT !.flips = IF b \in @ THEN @ \ {b} ELSE @ \cup {b}]
    /\ UNCHANGED <<nn, made, sk, probe, blob, plan>>
    /\ Step("Flip", [bit |-> b, byte |-> b \div 8, mask |-> 2^(b % 8), region |-> Region(b \div 8)], "ok")

Flip(b)     == Mode = "aead" /\ FlipBody(b)
FlipPlanned == Mode = "random" /\ ct.flips = {} /\ FlipBody(plan.bit)

(* keep the first n bytes; cutting inside an appended tail keeps the original bytes *)
Truncate(n) ==
    /\ ct.live /\ nn = 1 /\ Mode = "aead" /\ ct.flips = {} /\ n \in 0..(ct.cur - 1)
    /\ ct' = [ct EXCEPT !.cur = n]
    /\ UNCHANGED <<nn, made, sk, probe, blob, plan>>
    /\ Step("Truncate", [n |-> n, region |-> IF n >= Full(ct.l) THEN "appended" ELSE Region(n)], "ok")

(* append one foreign byte to an unmodified ciphertext *)
Extend ==
    /\ ct.live /\ nn = 1 /\ Mode = "aead" /\ Intact(ct)
    /\ ct' = [ct EXCEPT !.cur = @ + 1]
    /\ UNCHANGED <<nn, made, sk, probe, blob, plan>>
    /\ Step("Extend", [n |-> 1], "ok")

Decrypt(k) ==
    /\ ct.live
    /\ Mode = "random" => (k = plan.k /\ ct.flips # {})
    /\ UNCHANGED state
    /\ Step("Decrypt", [k |-> k], DecryptResult(ct, RawKey(k)).class)

(* ---- passphrase-key actions (mode "pass") ---- *)
RightKey(s) == Kdf(s.pw, <<s.salt[1], {}>>, s.ps)
Canonical   == sk.key = RightKey(sk) /\ probe.live      \* the context in which the wide enumerations start
Unaltered   == blob.flips = {} /\ sk.salt[2] = {} /\ sk.dmod = {}

NewSecretKey(pw, ps) ==
    /\ Mode = "pass" /\ ~sk.live
    /\ sk' = [live |-> TRUE, pw |-> pw, salt |-> <<1, {}>>, ps |-> ps,
              digest |-> Digest(Kdf(pw, <<1, {}>>, ps)), dmod |-> {}, key |-> Kdf(pw, <<1, {}>>, ps)]
    /\ UNCHANGED <<ct, nn, made, probe, blob, plan>>
    /\ Step("NewSecretKey", [pw |-> pw, N |-> ps[1], r |-> ps[2], p |-> ps[3]], "ok")

(* The passphrase is changed (waddrmgr.ChangePassphrase; on snacl: a new      *)
(* SecretKey with a new salt takes over what the old one protected): from    *)
(* now on only the new passphrase derives the key, and what was sealed       *)
(* before stays readable.  Once per behaviour, from the canonical context.   *)
Rekey(pw2) ==
    /\ Mode = "pass" /\ sk.live /\ Canonical /\ Unaltered /\ ~blob.live /\ sk.salt[1] = 1 /\ sk.pw \in BlobFlipPws
    /\ LET k2 == Kdf(pw2, <<2, {}>>, sk.ps) IN
       /\ sk' = [live |-> TRUE, pw |-> pw2, salt |-> <<2, {}>>, ps |-> sk.ps,
                 digest |-> Digest(k2), dmod |-> {}, key |-> k2]
       /\ probe' = Sealed(k2, 5, nn + 1) /\ nn' = nn + 1
       /\ made' = made \cup {<<k2, 5, nn + 1>>}
    /\ UNCHANGED <<ct, blob, plan>>
    /\ Step("Rekey", [pw |-> pw2], "ok")

SealProbe ==
    /\ sk.live /\ ~probe.live /\ sk.key = RightKey(sk) /\ Unaltered
    /\ probe' = Sealed(sk.key, 5, nn + 1) /\ nn' = nn + 1
    /\ made' = made \cup {<<sk.key, 5, nn + 1>>}
    /\ UNCHANGED <<ct, sk, blob, plan>>
    /\ Step("SealProbe", [len |-> 5], "ok")

Zero ==
    /\ sk.live /\ sk.key # ZeroKey /\ Unaltered
    /\ sk' = [sk EXCEPT !.key = ZeroKey]
    /\ UNCHANGED <<ct, nn, made, probe, blob, plan>>
    /\ Step("Zero", <<>>, "ok")

DeriveKey(cand) ==
    /\ sk.live /\ Unaltered
    /\ sk' = [sk EXCEPT !.key = Derived(sk, cand)]
    /\ UNCHANGED <<ct, nn, made, probe, blob, plan>>
    /\ Step("DeriveKey", [pw |-> cand], DeriveResult(sk, cand))

OpenProbe ==
    /\ sk.live /\ probe.live
    /\ UNCHANGED state
    /\ Step("OpenProbe", <<>>, DecryptResult(probe, sk.key).class)

Marshal ==
    /\ sk.live /\ ~blob.live
    /\ blob' = [live |-> TRUE, salt |-> sk.salt, ps |-> sk.ps, digest |-> sk.digest, flips |-> {}]
    /\ UNCHANGED <<ct, nn, made, sk, probe, plan>>
    /\ Step("Marshal", <<>>, [len |-> BlobLen, N |-> sk.ps[1], r |-> sk.ps[2], p |-> sk.ps[3]])

(* Unmarshal the first len bytes of the blob (zero-padded beyond its end)   *)
(* into a NEW SecretKey; on success that key replaces the running one (its  *)
(* key field is empty until DeriveKey), on failure nothing changes.         *)
Unmarshal(len) ==
    /\ sk.live /\ blob.live
    /\ len # BlobLen => (Canonical /\ Unaltered)       \* wrong lengths: one context suffices
    /\ ~Unaltered => Canonical
    /\ IF UnmarshalResult(len) = "ok"
       THEN sk' = Loaded(sk, blob)
       ELSE UNCHANGED sk
    /\ UNCHANGED <<ct, nn, made, probe, blob, plan>>
    /\ Step("Unmarshal", [len |-> len],
            IF UnmarshalResult(len) = "ok"
            THEN [class |-> "ok", N |-> blob.ps[1], r |-> blob.ps[2], p |-> blob.ps[3]]
            ELSE [class |-> "error", N |-> 0, r |-> 0, p |-> 0])

(* process restart: only the marshalled parameters survive *)
Restart(cand) ==
    /\ sk.live /\ blob.live
    /\ ~Unaltered => (Canonical /\ cand = sk.pw)   \* altered parameters: the interesting candidate is the right one
    /\ LET s == Loaded(sk, blob) IN
       /\ sk' = [s EXCEPT !.key = Derived(s, cand)]
       /\ Step("Restart", [pw |-> cand], DeriveResult(s, cand))
    /\ UNCHANGED <<ct, nn, made, probe, blob, plan>>

(* one bit of the stored salt or digest is altered on disk (or altered back) *)
FlipBlob(b) ==
    /\ sk.live /\ blob.live /\ sk.pw \in BlobFlipPws /\ Canonical
    /\ sk.salt[2] = {} /\ sk.dmod = {}          \* the running key was loaded from unaltered parameters
    /\ b \in 0..(8 * (KeySize + DigestSize) - 1)
    /\ b \in blob.flips \/ blob.flips = {}
    /\ blob' = [blob EXCEPT !.flips = IF b \in @ THEN @ \ {b} ELSE @ \cup {b}]
    /\ UNCHANGED <<ct, nn, made, sk, probe, plan>>
    /\ Step("FlipBlob", [bit |-> b, byte |-> b \div 8, mask |-> 2^(b % 8),
                         region |-> IF b < SaltBits THEN "salt" ELSE "digest"], "ok")

MaxLen == CHOOSE l \in PtLens : \A x \in PtLens : x <= l
AeadNext ==
    \/ \E k \in Keys, l \in (IF Mode = "random" THEN {plan.l} ELSE PtLens) : Encrypt(k, l)
    \/ EncryptAgain
    \/ \E b \in 0..(8 * (Full(MaxLen) + 1) - 1) : Flip(b)
    \/ FlipPlanned
    \/ \E n \in 0..Full(MaxLen) : Truncate(n)
    \/ Extend
    \/ \E k \in Keys : Decrypt(k)

PassNext ==
    \/ \E pw \in Passphrases, ps \in ParamSets : NewSecretKey(pw, ps)
    \/ SealProbe \/ Zero \/ OpenProbe \/ Marshal
    \/ \E pw2 \in Passphrases : Rekey(pw2)
    \/ \E cand \in Passphrases : DeriveKey(cand) \/ Restart(cand)
    \/ \E len \in 0..(BlobLen + 8) : Unmarshal(len)
    \/ \E b \in 0..(8 * (KeySize + DigestSize) - 1) : FlipBlob(b)

\* a flat disjunction of named actions (TLC then reports coverage per action); the
\* ciphertext actions need a live ct, which only Encrypt (mode # "pass") creates, the
\* passphrase actions a live sk, which only NewSecretKey (mode "pass") creates
Next == AeadNext \/ PassNext
Spec == Init /\ [][Next]_vars

----------------------------------------------------------------------------
(* The property's sentences, as invariants over every reachable state *)

\* "Decrypting what was encrypted under the same key returns the original bytes"
RoundTrip ==
    /\ (ct.live /\ Intact(ct)) => \A k \in Keys : ct.k = RawKey(k) => DecryptResult(ct, RawKey(k)).class = "ok"
    /\ (probe.live /\ sk.live /\ sk.key = RightKey(sk)) => DecryptResult(probe, sk.key).class = "ok"

\* "decryption under any other key ... fails with an error instead of returning data"
OtherKeyFails ==
    /\ ct.live => \A k \in Keys : ct.k # RawKey(k) => DecryptResult(ct, RawKey(k)).class = "error"
    /\ (probe.live /\ sk.live /\ sk.key # probe.k) => DecryptResult(probe, sk.key).class = "error"

\* "... or of a ciphertext altered or truncated anywhere, fails"
TamperFails ==
    (ct.live /\ ~Intact(ct)) => \A k \in Keys : DecryptResult(ct, RawKey(k)).class = "error"

\* "encrypting equal plaintexts twice never yields equal ciphertexts"
Fresh == Cardinality(made) = nn

\* "A passphrase-derived key accepts only the exact passphrase it was created from"
ExactPassphrase ==
    sk.live => \A cand \in Passphrases :
                 (DeriveResult(sk, cand) = "ok") <=> (cand = sk.pw /\ sk.salt[2] = {} /\ sk.dmod = {})

\* "its stored parameters round-trip so the same passphrase re-derives the same key after restart"
ParamsRoundTrip ==
    (sk.live /\ blob.live) =>
        /\ blob.salt[1] = sk.salt[1] /\ blob.ps = sk.ps /\ blob.digest = sk.digest
        /\ \A len \in 0..(BlobLen + 8) : (UnmarshalResult(len) = "ok") <=> (len = BlobLen)
        /\ LET s == Loaded(sk, blob) IN
             IF blob.flips = {}
             THEN /\ DeriveResult(s, sk.pw) = "ok"
                  /\ Derived(s, sk.pw) = RightKey(sk)
                  /\ probe.live => DecryptResult(probe, Derived(s, sk.pw)).class = "ok"
             \* parameters altered in salt or digest accept no passphrase at all
             ELSE \A cand \in Passphrases : DeriveResult(s, cand) = "error"

TypeOK ==
    /\ nn \in 0..3
    /\ ct.live => (ct.cur \in 0..(Full(ct.l) + 1) /\ Cardinality(ct.flips) <= MaxFlips)
    /\ Len(hist) <= MaxHist

Inv == TypeOK /\ RoundTrip /\ OtherKeyFails /\ TamperFails /\ Fresh /\ ExactPassphrase /\ ParamsRoundTrip

----------------------------------------------------------------------------
(* Exploration support *)
View     == state
\* one behaviour per transition of the (view-reduced) state graph: the shortest
\* history reaching the source state plus the step, every step carrying the
\* result the operators above prescribe
EmitStep == PrintT(<<"TRACE", ToJson([mode |-> Mode, steps |-> hist'])>>)
=============================================================================
