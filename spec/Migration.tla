----------------------------- MODULE Migration -----------------------------
(***************************************************************************)
(* walletdb/migration: Upgrade(mgrs...) as the wallet calls it - inside    *)
(* one walletdb.Update.  Serves C19.                                       *)
(*                                                                         *)
(* The specification is implementation-shaped: one action per section of   *)
(* `upgrade` (read current version and sort the table in place as          *)
(* GetLatestVersion does, the three-way switch, VersionsToApply = filter + *)
(* sort, the apply loop that skips nil migrations and stops at the first   *)
(* error, SetVersion) bracketed by the caller's database transaction       *)
(* (Begin / Commit / Rollback).  The property's sentences are stated       *)
(* separately, from sets and orderings only (no sorting operator), as      *)
(* invariants of the final state.                                          *)
(*                                                                         *)
(* A behaviour is one case: the managers handed to Upgrade (version table  *)
(* in declared order with nil flags, stored version, number of the         *)
(* migration that fails or 0).  TLC enumerates the whole case space and    *)
(* prints each case with the outcome the specification reaches; the        *)
(* driver harness/cmd/replay-migration runs the case on the real           *)
(* migration.Upgrade over a real bdb database and compares.                *)
(***************************************************************************)
EXTENDS Integers, Sequences, FiniteSets, TLC, Json

CONSTANTS
    Family,    \* "mock1": one manager, every table over 1..MaxV
               \* "mock2": two managers in one transaction, tables over 1..MaxV each
               \* "real" : the version tables of wtxmgr / waddrmgr (see RealCases)
    MaxV       \* numbers are drawn from 1..MaxV, stored versions from 0..MaxV+1

VARIABLES
    mgrs,      \* the case (static): sequence of [pkg, variant, table, stored, fail]
    disk,      \* committed state per manager: [ver, marks]  (marks = migrations whose writes are on disk)
    tx,        \* state seen inside the open database transaction, <<>> when none
    pc,        \* "begin","mgr","switch","apply","return","commit","rollback","done"
    mi,        \* index of the manager `upgrade` is working on
    cur,       \* upgrade: currentVersion
    latest,    \* upgrade: latestVersion
    versions,  \* upgrade: the slice returned by mgr.Versions() (sorted in place by GetLatestVersion)
    todo,      \* upgrade: remaining part of VersionsToApply(...)
    events,    \* calls observed by the managers: [k |-> "mig"|"set", m |-> manager, n |-> number]
    err,       \* what Upgrade returns: "none" | "reversion" | "migration"
    seen       \* version of every manager as read inside the transaction after Upgrade returned

vars == <<mgrs, disk, tx, pc, mi, cur, latest, versions, todo, events, err, seen>>

----------------------------------------------------------------------------
(* The case space *)
Perms(S) == {p \in [1..Cardinality(S) -> S] :
                \A a, b \in 1..Cardinality(S) : a # b => p[a] # p[b]}

\* every table with numbers S (a non-empty subset of 1..V), in every declared
\* order, with every choice Z of versions that carry no migration function
Tables(V) ==
    {<<>>} \cup
    UNION { UNION { { [k \in 1..Cardinality(S) |-> [n |-> p[k], nil |-> p[k] \in Z]] : Z \in SUBSET S }
                    : p \in Perms(S) }
            : S \in (SUBSET (1..V)) \ {{}} }

Nums(t)   == {t[k].n : k \in 1..Len(t)}
NonNil(t) == {t[k].n : k \in {j \in 1..Len(t) : ~t[j].nil}}

\* a failure can be injected into every migration function of the table
\* (also into one that must not run)
MockMgrs(V) ==
    {m \in {[pkg |-> "mock", variant |-> "", table |-> t, stored |-> s, fail |-> f]
               : t \in Tables(V), s \in 0..(V+1), f \in 0..V}
       : m.fail = 0 \/ m.fail \in NonNil(m.table)}

(* The real version tables (the driver compares them with what the         *)
(* packages' MigrationManager.Versions() return and reports a broken check *)
(* if they differ).                                                        *)
WtxTable   == << [n |-> 1, nil |-> TRUE], [n |-> 2, nil |-> FALSE] >>
WaddrTable == << [n |-> 2, nil |-> FALSE], [n |-> 5, nil |-> FALSE], [n |-> 6, nil |-> FALSE],
                 [n |-> 7, nil |-> FALSE], [n |-> 8, nil |-> FALSE] >>

(* Databases are fabricated by the packages' own Create (latest schema)    *)
(* and writing a lower/higher number into the version key.  That is        *)
(* faithful for waddrmgr versions 5..7 (migrations 6, 7, 8 work on the     *)
(* current bucket layout); versions below 5 had another layout (migration  *)
(* 5 walks buckets that no longer exist) and are left out.  On a freshly   *)
(* created manager the migration to 7 fails unless a birthday block is     *)
(* present ("bday": the driver stores one; migration 6 stores one itself): *)
(* a failure of a real migration function at a known position, which is    *)
(* what `fail` says.                                                       *)
WtxMgrs   == {[pkg |-> "wtxmgr", variant |-> "", table |-> WtxTable, stored |-> s, fail |-> 0] : s \in 0..4}
WaddrMgrs ==
    {[pkg |-> "waddrmgr", variant |-> "", table |-> WaddrTable, stored |-> s, fail |-> 0] : s \in {5, 7, 8, 9, 10}}
    \cup {[pkg |-> "waddrmgr", variant |-> "nobday", table |-> WaddrTable, stored |-> 6, fail |-> 7],
          [pkg |-> "waddrmgr", variant |-> "bday",   table |-> WaddrTable, stored |-> 6, fail |-> 0]}

RealCases ==
    {<<m>> : m \in WtxMgrs \cup WaddrMgrs}
    \cup {<<a, b>> : a \in WtxMgrs, b \in WaddrMgrs}      \* the order wallet.OpenWithRetry uses

Cases ==
    CASE Family = "mock1" -> {<<m>> : m \in MockMgrs(MaxV)}
      [] Family = "mock2" -> {<<a, b>> : a \in MockMgrs(MaxV), b \in MockMgrs(MaxV)}
      [] Family = "real"  -> RealCases

----------------------------------------------------------------------------
(* Operators that mirror the exported helpers of the package *)
ByNum(a, b) == a.n < b.n
SortedByNum(s) == SortSeq(s, ByNum)                       \* sort.Slice(..., Number <)

GetLatestVersion(t) == IF Len(t) = 0 THEN 0 ELSE SortedByNum(t)[Len(t)].n
VersionsToApply(c, t) == SortedByNum(SelectSeq(t, LAMBDA v : v.n > c))
NumsOf(s) == [k \in 1..Len(s) |-> s[k].n]

----------------------------------------------------------------------------
Init ==
    /\ mgrs \in Cases
    /\ disk = [i \in 1..Len(mgrs) |-> [ver |-> mgrs[i].stored, marks |-> {}]]
    /\ tx = <<>>
    /\ pc = "begin"
    /\ mi = 0 /\ cur = 0 /\ latest = 0
    /\ versions = <<>> /\ todo = <<>> /\ events = <<>>
    /\ err = "none"
    /\ seen = <<>>

(* walletdb.Update begins; the closure calls migration.Upgrade(mgrs...). *)
Begin ==
    /\ pc = "begin"
    /\ tx' = disk
    /\ mi' = 1
    /\ pc' = "mgr"
    /\ UNCHANGED <<mgrs, disk, cur, latest, versions, todo, events, err, seen>>

(* Upgrade's loop head, and the first lines of upgrade(mgr):               *)
(* CurrentVersion, Versions, GetLatestVersion (which sorts the slice it is *)
(* given in place).                                                        *)
ReadVersions ==
    /\ pc = "mgr"
    /\ IF mi > Len(mgrs)
       THEN /\ pc' = "return"
            /\ UNCHANGED <<cur, latest, versions>>
       ELSE /\ cur' = tx[mi].ver
            /\ versions' = SortedByNum(mgrs[mi].table)
            /\ latest' = GetLatestVersion(mgrs[mi].table)
            /\ pc' = "switch"
    /\ UNCHANGED <<mgrs, disk, tx, mi, todo, events, err, seen>>

Switch ==
    /\ pc = "switch"
    /\ CASE cur > latest ->                                  \* ErrReversion
              /\ err' = "reversion" /\ pc' = "return"
              /\ UNCHANGED <<todo, mi>>
         [] cur < latest ->
              /\ todo' = VersionsToApply(cur, versions)
              /\ pc' = "apply"
              /\ UNCHANGED <<err, mi>>
         [] OTHER ->                                         \* up to date: next manager
              /\ mi' = mi + 1 /\ pc' = "mgr"
              /\ UNCHANGED <<err, todo>>
    /\ UNCHANGED <<mgrs, disk, tx, cur, latest, versions, events, seen>>

(* One iteration of the loop over the versions to apply.  A migration      *)
(* function writes to the namespace (its mark) and may fail after that.    *)
Apply ==
    /\ pc = "apply" /\ todo # <<>>
    /\ LET v == Head(todo) IN
       IF v.nil
       THEN /\ todo' = Tail(todo)
            /\ UNCHANGED <<tx, events, err, pc>>
       ELSE /\ events' = Append(events, [k |-> "mig", m |-> mi, n |-> v.n])
            /\ tx' = [tx EXCEPT ![mi].marks = @ \cup {v.n}]
            /\ IF v.n = mgrs[mi].fail
               THEN /\ err' = "migration" /\ pc' = "return"
                    /\ UNCHANGED todo
               ELSE /\ todo' = Tail(todo)
                    /\ UNCHANGED <<err, pc>>
    /\ UNCHANGED <<mgrs, disk, mi, cur, latest, versions, seen>>

SetVersion ==
    /\ pc = "apply" /\ todo = <<>>
    /\ tx' = [tx EXCEPT ![mi].ver = latest]
    /\ events' = Append(events, [k |-> "set", m |-> mi, n |-> latest])
    /\ mi' = mi + 1
    /\ pc' = "mgr"
    /\ UNCHANGED <<mgrs, disk, cur, latest, versions, todo, err, seen>>

(* Upgrade has returned to the closure, which reads the versions inside    *)
(* the transaction and hands Upgrade's error to walletdb.Update.           *)
Return ==
    /\ pc = "return"
    /\ seen' = [i \in 1..Len(mgrs) |-> tx[i].ver]
    /\ pc' = IF err = "none" THEN "commit" ELSE "rollback"
    /\ UNCHANGED <<mgrs, disk, tx, mi, cur, latest, versions, todo, events, err>>

Commit ==
    /\ pc = "commit"
    /\ disk' = tx
    /\ tx' = <<>>
    /\ pc' = "done"
    /\ UNCHANGED <<mgrs, mi, cur, latest, versions, todo, events, err, seen>>

Rollback ==
    /\ pc = "rollback"
    /\ tx' = <<>>
    /\ pc' = "done"
    /\ UNCHANGED <<mgrs, disk, mi, cur, latest, versions, todo, events, err, seen>>

Next == Begin \/ ReadVersions \/ Switch \/ Apply \/ SetVersion \/ Return \/ Commit \/ Rollback

Spec == Init /\ [][Next]_vars

----------------------------------------------------------------------------
(* The property, sentence by sentence, over the case and the final state.  *)
(* Nothing here uses the sorting operators above.                          *)
N          == Len(mgrs)
Stored(i)  == mgrs[i].stored
Latest(i)  == IF Nums(mgrs[i].table) = {} THEN 0
              ELSE CHOOSE x \in Nums(mgrs[i].table) : \A y \in Nums(mgrs[i].table) : y <= x
\* the migrations numbered above the stored version
Pending(i) == {n \in NonNil(mgrs[i].table) : n > Stored(i)}
Outcome(i) == IF Stored(i) > Latest(i) THEN "reversion"
              ELSE IF mgrs[i].fail \in Pending(i) THEN "migration" ELSE "none"
Bad        == {i \in 1..N : Outcome(i) # "none"}
FirstBad   == IF Bad = {} THEN 0 ELSE CHOOSE i \in Bad : \A j \in Bad : i <= j
Entered(i) == FirstBad = 0 \/ i <= FirstBad       \* upgrade(mgr i) was called
Passed(i)  == FirstBad = 0 \/ i < FirstBad        \* ... and returned nil
MigsOf(i)  == SelectSeq(events, LAMBDA e : e.k = "mig" /\ e.m = i)
SetsOf(i)  == SelectSeq(events, LAMBDA e : e.k = "set" /\ e.m = i)
MustRun(i) == IF ~Entered(i) THEN {}
              ELSE IF Outcome(i) = "migration" THEN {n \in Pending(i) : n <= mgrs[i].fail}
              ELSE Pending(i)

\* "runs exactly the migrations numbered above the stored version, each once
\*  and in ascending order regardless of the order they are declared in"
ExactlyOnceAscending ==
    pc = "done" => \A i \in 1..N :
        LET ms == MigsOf(i) IN
        /\ {ms[k].n : k \in 1..Len(ms)} = MustRun(i)
        /\ \A a, b \in 1..Len(ms) : a < b => ms[a].n < ms[b].n

\* "and then records the latest version"
RecordsLatestAfterwards ==
    pc = "done" => \A i \in 1..N :
        /\ Len(SetsOf(i)) = IF Passed(i) /\ Stored(i) < Latest(i) THEN 1 ELSE 0
        /\ \A k \in 1..Len(events) : (events[k].k = "set" /\ events[k].m = i) =>
              /\ events[k].n = Latest(i)
              /\ \A j \in 1..Len(events) : (events[j].k = "mig" /\ events[j].m = i) => j < k
        /\ \A a, b \in 1..Len(events) : a < b => events[a].m <= events[b].m

\* "if a migration fails the stored version is unchanged and, inside one
\*  database transaction, so is the data"; success records everything
AllOrNothing ==
    pc = "done" =>
        /\ err = (IF FirstBad = 0 THEN "none" ELSE Outcome(FirstBad))
        /\ IF FirstBad = 0
           THEN \A i \in 1..N : disk[i].ver = Latest(i) /\ disk[i].marks = Pending(i)
           ELSE \A i \in 1..N : disk[i].ver = Stored(i) /\ disk[i].marks = {}
        /\ \A i \in 1..N :
              seen[i] = IF Passed(i) THEN Latest(i) ELSE Stored(i)

\* "a database whose version is newer than the software understands is
\*  refused without being modified"
NewerRefused ==
    pc = "done" => \A i \in 1..N :
        (Entered(i) /\ Stored(i) > Latest(i)) =>
            /\ err = "reversion"
            /\ MigsOf(i) = <<>> /\ SetsOf(i) = <<>>
            /\ disk[i] = [ver |-> Stored(i), marks |-> {}]

\* the exported helpers agree with the set formulation
HelpersAgree ==
    \A i \in 1..N :
        LET t == mgrs[i].table
            a == NumsOf(VersionsToApply(Stored(i), t)) IN
        /\ GetLatestVersion(t) = Latest(i)
        /\ {a[k] : k \in 1..Len(a)} = {n \in Nums(t) : n > Stored(i)}
        /\ \A x, y \in 1..Len(a) : x < y => a[x] < a[y]

TypeOK ==
    /\ pc \in {"begin", "mgr", "switch", "apply", "return", "commit", "rollback", "done"}
    /\ err \in {"none", "reversion", "migration"}
    /\ (tx = <<>>) <=> (pc \in {"begin", "done"})

Inv == TypeOK /\ ExactlyOnceAscending /\ RecordsLatestAfterwards /\ AllOrNothing
       /\ NewerRefused /\ HelpersAgree

----------------------------------------------------------------------------
(* Export: one TRACE line per case when it is finished.                    *)
\* what Open of the component must answer for a stored version v: the
\* property fixes "refuse" above the latest; equal opens; below is not its subject
OpenClass(v, l) == IF v > l THEN "refuse" ELSE IF v = l THEN "ok" ELSE "any"

(* The upgrade is called once more, in the same process on the same version  *)
(* tables and the same database, with the injected failure gone (a retry    *)
(* after a failed start, or simply the next start): it must again run        *)
(* exactly what is pending NOW, ascending, and record the latest versions.   *)
Ver1(i)      == disk[i].ver                                   \* stored version after the first call
Pending2(i)  == {n \in NonNil(mgrs[i].table) : n > Ver1(i)}
Rev2         == {i \in 1..N : Ver1(i) > Latest(i)}
FirstRev2    == IF Rev2 = {} THEN 0 ELSE CHOOSE i \in Rev2 : \A j \in Rev2 : i <= j
RECURSIVE SetToSeqNums(_)
SetToSeqNums(S) == IF S = {} THEN << >> ELSE LET x == CHOOSE y \in S : TRUE IN <<x>> \o SetToSeqNums(S \ {x})
Asc(S)       == SortSeq(SetToSeqNums(S), LAMBDA a, b : a < b)
RetryOf(i)   == [k \in 1..Cardinality(Pending2(i)) |-> [k |-> "mig", n |-> Asc(Pending2(i))[k], m |-> i]]
                \o (IF Ver1(i) < Latest(i) THEN << [k |-> "set", n |-> Latest(i), m |-> i] >> ELSE << >>)
RECURSIVE RetryEvents(_)
RetryEvents(i) == IF i > N \/ (FirstRev2 # 0 /\ i >= FirstRev2) THEN << >> ELSE RetryOf(i) \o RetryEvents(i + 1)
Retry == [ events |-> RetryEvents(1),
           err    |-> IF FirstRev2 = 0 THEN "none" ELSE "reversion",
           disk   |-> [i \in 1..N |-> IF FirstRev2 = 0
                                      THEN [ver |-> IF Ver1(i) < Latest(i) THEN Latest(i) ELSE Ver1(i),
                                            marks |-> disk[i].marks \cup Pending2(i)]
                                      ELSE [ver |-> Ver1(i), marks |-> disk[i].marks]] ]

Exp == [ events |-> events,
         retry  |-> Retry,
         err    |-> err,
         seen   |-> seen,
         \* real migration functions may write the version key themselves (waddrmgr's
         \* migrations to 2 and 5 do), so after a failure the version inside the
         \* transaction is fixed by the property only for the recording managers
         seenFixed |-> (Family # "real") \/ (err = "none"),
         disk   |-> [i \in 1..N |-> [ver |-> disk[i].ver, marks |-> disk[i].marks]],
         latest |-> [i \in 1..N |-> GetLatestVersion(mgrs[i].table)],
         vta    |-> [i \in 1..N |-> NumsOf(VersionsToApply(Stored(i), mgrs[i].table))],
         openBefore |-> [i \in 1..N |-> OpenClass(Stored(i), GetLatestVersion(mgrs[i].table))],
         openAfter  |-> [i \in 1..N |-> OpenClass(disk[i].ver, GetLatestVersion(mgrs[i].table))] ]

EmitCase ==
    pc = "done" => PrintT(<<"TRACE", ToJson([family |-> Family, mgrs |-> mgrs, exp |-> Exp])>>)
=============================================================================
