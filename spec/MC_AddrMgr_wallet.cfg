\* wallet-level pass of C08 / C03: the account and address API of wallet.Wallet (NewAddress, NewChangeAddress,
\* NextAccount, ImportAccount, ImportAccountDryRun, RenameAccount, Lock, Unlock, restart).  Only the import has a
\* rolled-back variant at this level (the dry run).  1 scope, <= 3 accounts, indices 0..1.
CONSTANTS
  Scopes = {"bip84"}
  MaxIdx = 1
  MaxAccts = 3
  PWs = {"p1", "p2"}
  PubPWs = {"pub1", "pub2"}
  Names = {"alice"}
  XNames = {"xacct"}
  ImpIds = {"p1"}
  MaxSync = 0
  Outcomes = {"commit", "rollback"}
  Acts = {"NextAddr", "Lookup", "NewAccount", "ImportXpub", "Import", "Rename", "Unlock", "Lock", "ChangeBoth", "Restart"}
  NoRollback = {"NextAddr", "NewAccount", "Rename", "Import"}
  MaxHist = 60
  FullHist = FALSE
INIT Init
NEXT Next
VIEW View
INVARIANT Inv
PROPERTY IndicesMonotone NothingForgotten RollbackIsNoop UnlockOnlyWithPw WatchOnlyForever
ACTION_CONSTRAINT EmitStep
CHECK_DEADLOCK FALSE
