\* C07 conformance cases, family "random": seeded (VERIF_SEED) pseudo-random coin lists, values, output lists, targets and rates; no constructed boundary.
\* Every case is exported with the outcome the specification predicts; Inv is checked on every case.
CONSTANTS
  Family = "random"
  NRandom = 20000
INIT Init
NEXT Next
INVARIANT Inv
ACTION_CONSTRAINT EmitCase
CHECK_DEADLOCK FALSE
