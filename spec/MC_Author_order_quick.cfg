\* C07 conformance cases, family "order": the exact-fee boundary lies at a proper prefix of the offered coins: mixes of 0..2 coins per type (>= 2 coins) in 3 orders, 2 prefix lengths, 5 boundary amounts, 2 rates.
\* Every case is exported with the outcome the specification predicts; Inv is checked on every case.
CONSTANTS
  Family = "order"
  NRandom = 0
INIT Init
NEXT Next
INVARIANT Inv
ACTION_CONSTRAINT EmitCase
CHECK_DEADLOCK FALSE
