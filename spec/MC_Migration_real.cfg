\* C19: the real version tables of wtxmgr (1 nil, 2) and waddrmgr (2,5,6,7,8), alone and in the
\* order wallet.OpenWithRetry upgrades them, stored versions below, at and above the latest.
CONSTANTS
  Family = "real"
  MaxV = 0
INIT Init
NEXT Next
INVARIANT Inv EmitCase
CHECK_DEADLOCK FALSE
