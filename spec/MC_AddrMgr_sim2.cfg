\* random walks over the taproot and the legacy scope, witness-script and taproot-script imports
CONSTANTS
  Scopes = {"bip86", "bip44"}
  MaxIdx = 3
  MaxAccts = 3
  PWs = {"p1", "p2", "p3"}
  PubPWs = {"pub1", "pub2"}
  Names = {"alice", "bob"}
  XNames = {"xacct"}
  ImpIds = {"k2", "w1", "t1"}
  MaxSync = 3
  Outcomes = {"commit", "rollback"}
  Acts = {"NextAddr", "Extend", "Lookup", "DerivePath", "DeriveCache", "NewAccount", "ImportXpub", "Rename", "Import", "Unlock", "Lock", "ChangePriv", "ChangePub", "MarkUsed", "SetSynced", "ConvertWO", "Restart"}
  NoRollback = {}
  MaxHist = 30
  FullHist = TRUE
INIT Init
NEXT Next
INVARIANT Inv EmitFull
CHECK_DEADLOCK FALSE
