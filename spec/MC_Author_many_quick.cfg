\* C07 conformance cases, family "many": input counts 252, 253, 254 of each type and mixed (compact-size step of the input count), 3 boundary amounts, 2 rates.
\* Every case is exported with the outcome the specification predicts; Inv is checked on every case.
CONSTANTS
  Family = "many"
  NRandom = 0
INIT Init
NEXT Next
INVARIANT Inv
ACTION_CONSTRAINT EmitCase
CHECK_DEADLOCK FALSE
