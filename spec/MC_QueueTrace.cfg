\* C18 trace validation: every recorded run in trace.ndjson must be a behaviour of Queue.tla.
\* Constants: N is only an upper bound here (each run's reset line carries its own n and B);
\* all fault switches FALSE (the code as specified). Run with -workers 1 (TLC register 1 = high-water mark).
SPECIFICATION TraceSpec
CONSTANTS
  N = 1000000
  Bs = {0, 1, 2, 3}
  PopBack = FALSE
  NoDefault = FALSE
  WeakHandoff = FALSE
  DropWhenFull = FALSE
  NoQuit = FALSE
INVARIANT TraceInv
POSTCONDITION TraceAccepted
CHECK_DEADLOCK FALSE
