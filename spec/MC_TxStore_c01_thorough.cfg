\* C01/C02/C13 thorough: all 4-tx graph families, minimal lease dimension, 4 block heights.
CONSTANTS
  GraphIds = {1,2,3,4,5,6,7,8,9,12}
  MaxTip = 4
  Mat = 2
  LeaseIds = {1}
  MaxNow = 1
  MaxHist = 40
  PathView = FALSE
  FullHist = FALSE
INIT Init
NEXT NextCore
VIEW View
INVARIANT Inv
PROPERTY ReorgSemantics ConfirmSemantics LeaseSemantics
ACTION_CONSTRAINT EmitStep
CHECK_DEADLOCK FALSE
