\* C02/C13 quick: three graph families (all nine in thorough), 2 block heights, states reached through a reorg kept apart (PathView).
CONSTANTS
  GraphIds = {1,3,4,12}
  MaxTip = 2
  Mat = 2
  LeaseIds = {1}
  MaxNow = 1
  MaxHist = 40
  PathView = TRUE
  FullHist = FALSE
INIT Init
NEXT NextCore
VIEW View
INVARIANT Inv
PROPERTY ReorgSemantics ConfirmSemantics LeaseSemantics
ACTION_CONSTRAINT EmitStep
CHECK_DEADLOCK FALSE
