\* C07 conformance cases, family "outsT": as "outs" with 12 input mixes.
\* Every case is exported with the outcome the specification predicts; Inv is checked on every case.
CONSTANTS
  Family = "outsT"
  NRandom = 0
INIT Init
NEXT Next
INVARIANT Inv
ACTION_CONSTRAINT EmitCase
CHECK_DEADLOCK FALSE
