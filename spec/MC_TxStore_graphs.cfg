\* minimal run whose only purpose is to print the graph family (used by --replay)
CONSTANTS
  GraphIds = {1}
  MaxTip = 0
  Mat = 2
  LeaseIds = {1}
  MaxNow = 0
  MaxHist = 1
  PathView = FALSE
  FullHist = FALSE
INIT Init
NEXT NextCore
VIEW View
CONSTRAINT HistBound
CHECK_DEADLOCK FALSE
