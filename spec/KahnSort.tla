------------------------------ MODULE KahnSort ------------------------------
(***************************************************************************)
(* wtxmgr/kahnsort.go: makeGraph, graphRoots, DependencySort, transcribed  *)
(* to PlusCal with the iteration order of Go's maps left nondeterministic  *)
(* (every order is explored).  Serves C14.                                 *)
(*                                                                         *)
(* A behaviour starts from one transaction set g of the family MkGraph(..): *)
(* every DAG on 0..MaxN transactions with 0..MaxMult spend edges between   *)
(* each pair i < j, which covers chains, diamonds, multi-edges,            *)
(* independent components and conflicting siblings (two children spending  *)
(* the same output of the parent), with inputs that spend outputs of       *)
(* transactions outside the set.  A transaction is its number, standing    *)
(* for its hash; an input is an outpoint <<parent, output index>>, parent  *)
(* 0 = a transaction that is not in the set.                               *)
(*                                                                         *)
(* TLC checks that every terminating run returns each transaction exactly  *)
(* once and after all its in-set parents, that the algorithm terminates    *)
(* (deadlock freedom + a strictly decreasing natural measure), and prints  *)
(* every g with its set of valid orders; harness/cmd/replay-kahn realises  *)
(* g as wire.MsgTx values and runs the real DependencySort and             *)
(* Store.UnminedTxs on them.                                               *)
(***************************************************************************)
EXTENDS Integers, Sequences, FiniteSets, TLC, Json

CONSTANTS
    MaxN,      \* graphs on 0..MaxN transactions
    MaxMult,   \* 0..MaxMult edges per ordered pair (2: both outputs of the parent)
    FModes     \* how inputs from outside the set are placed, subset of {1, 2}:
               \*   1 = a transaction without in-set parent spends one foreign output
               \*   2 = every transaction spends one foreign output, as its first input
               \*       (even numbers) or as its last input (odd numbers)

----------------------------------------------------------------------------
(* The family of transaction sets *)
Pairs(n)     == {pr \in (1..n) \X (1..n) : pr[1] < pr[2]}
\* every transaction has two outputs; a single edge p -> j spends output
\* (p+j) % 2, so children of equal parity conflict, others do not; a double
\* edge spends both outputs and conflicts with every sibling
OutIdx(p, j) == (p + j) % 2
Foreign(j)   == <<0, j>>

RECURSIVE InSetIns(_, _, _)
InSetIns(m, j, p) ==
    IF p >= j THEN <<>>
    ELSE (CASE m[<<p, j>>] = 0 -> <<>>
            [] m[<<p, j>>] = 1 -> << <<p, OutIdx(p, j)>> >>
            [] OTHER           -> << <<p, 0>>, <<p, 1>> >>) \o InSetIns(m, j, p + 1)

InsOf(m, fm, j) ==
    LET own == InSetIns(m, j, 1) IN
    CASE fm = 1 -> IF own = <<>> THEN <<Foreign(j)>> ELSE own
      [] fm = 2 -> IF j % 2 = 0 THEN <<Foreign(j)>> \o own ELSE Append(own, Foreign(j))
      [] OTHER  -> own

MkGraph(n, m, fm) ==
    [n |-> n, fm |-> fm,
     ins |-> IF n = 0 THEN <<>> ELSE [j \in 1..n |-> InsOf(m, fm, j)]]

\* the family: MkGraph(n, m, fm) for n \in 0..MaxN, m \in [Pairs(n) -> 0..MaxMult], fm \in FModes

Perms(S) == {p \in [1..Cardinality(S) -> S] :
                \A a, b \in 1..Cardinality(S) : a # b => p[a] # p[b]}

----------------------------------------------------------------------------
(* hashGraph = map[chainhash.Hash]graphNode as a partial function; reading *)
(* a missing key gives the zero node (value nil = 0).                      *)
Zero          == [value |-> 0, outEdges |-> <<>>, inDegree |-> 0]
Get(gr, h)    == IF h \in DOMAIN gr THEN gr[h] ELSE Zero
Put(gr, h, x) == [y \in (DOMAIN gr) \cup {h} |-> IF y = h THEN x ELSE gr[y]]
InSet(gg, h)  == h \in 1..gg.n                 \* _, ok := set[hash]

(* makeGraph, the loop over tx.TxIn of one transaction t (inputs k, k+1, ..) *)
RECURSIVE AddInputs(_, _, _, _)
AddInputs(gg, gr, t, k) ==
    IF k > Len(gg.ins[t]) THEN gr
    ELSE LET p == gg.ins[t][k][1] IN              \* input.PreviousOutPoint.Hash
         IF ~InSet(gg, p) THEN AddInputs(gg, gr, t, k + 1)
         ELSE LET inputNode == Get(gr, p) IN
              \* "Skip duplicate edges", as written: an out-edge (a child's hash)
              \* is compared with the hash of the input's own transaction, which
              \* never matches in a DAG - duplicate edges are kept and counted
              IF \E e \in 1..Len(inputNode.outEdges) : inputNode.outEdges[e] = p
              THEN AddInputs(gg, gr, t, k + 1)
              ELSE LET g1   == Put(gr, p, [value    |-> IF inputNode.value = 0 THEN p ELSE inputNode.value,
                                           outEdges |-> Append(inputNode.outEdges, t),
                                           inDegree |-> inputNode.inDegree])
                       node == Get(g1, t)
                       g2   == Put(g1, t, [value    |-> t,
                                           outEdges |-> node.outEdges,
                                           inDegree |-> node.inDegree + 1])
                   IN  AddInputs(gg, g2, t, k + 1)

(* makeGraph, body of the loop over the set for transaction t *)
AddTx(gg, gr, t) ==
    LET g0 == IF t \in DOMAIN gr THEN gr
              ELSE Put(gr, t, [value |-> t, outEdges |-> <<>>, inDegree |-> 0])
    IN  AddInputs(gg, g0, t, 1)

(* DependencySort, the loop over n.outEdges (edges k, k+1, ...) *)
RECURSIVE Relax(_, _, _, _)
Relax(gr, st, edges, k) ==
    IF k > Len(edges) THEN [graph |-> gr, s |-> st]
    ELSE LET m == gr[edges[k]] IN
         IF m.inDegree # 0
         THEN LET m2 == [m EXCEPT !.inDegree = @ - 1] IN
              Relax(Put(gr, edges[k], m2),
                    IF m2.inDegree = 0 THEN Append(st, m2.value) ELSE st,
                    edges, k + 1)
         ELSE Relax(gr, st, edges, k + 1)

(***************************************************************************
--fair algorithm KahnSort {
  variables
    \* the set handed to DependencySort: any member of the family, chosen
    \* through its parameters (number of transactions, edge multiplicities,
    \* foreign-input mode) so that TLC enumerates the family lazily
    gn \in 0..MaxN,
    gm \in [Pairs(gn) -> 0..MaxMult],
    gfm \in FModes,
    g = MkGraph(gn, gm, gfm),
    graph = <<>>,          \* hashGraph under construction
    todo = 1..g.n,         \* keys makeGraph's range loop has not visited yet
    s = <<>>,
    sorted = <<>>,
    result = <<>>;
  {
  start:                                       \* DependencySort(txs) is entered
    skip;
  makeGraph:                                   \* for _, tx := range set
    while (todo # {}) {
      with (t \in todo) {
        graph := AddTx(g, graph, t);
        todo := todo \ {t};
      }
    };
  graphRoots:                                  \* for _, node := range graph: any order of the nodes,
                                               \* hence any order of those with inDegree 0
    with (order \in Perms({h \in DOMAIN graph : graph[h].inDegree = 0})) {
      s := [k \in 1..Len(order) |-> graph[order[k]].value];
    };
  shortcut:                                    \* if len(s) == len(txs) { return s }
    if (Len(s) = g.n) {
      result := s;
      goto Done;
    };
  kahn:
    while (Len(s) # 0) {
      with (tx = Head(s), r = Relax(graph, Tail(s), graph[Head(s)].outEdges, 1)) {
        sorted := Append(sorted, tx);
        graph := r.graph;
        s := r.s;
      }
    };
    result := sorted;
  }
}
 ***************************************************************************)
\* BEGIN TRANSLATION
VARIABLES pc, gn, gm, gfm, g, graph, todo, s, sorted, result

vars == << pc, gn, gm, gfm, g, graph, todo, s, sorted, result >>

Init == (* Global variables *)
        /\ gn \in 0..MaxN
        /\ gm \in [Pairs(gn) -> 0..MaxMult]
        /\ gfm \in FModes
        /\ g = MkGraph(gn, gm, gfm)
        /\ graph = <<>>
        /\ todo = 1..g.n
        /\ s = <<>>
        /\ sorted = <<>>
        /\ result = <<>>
        /\ pc = "start"

start == /\ pc = "start"
         /\ TRUE
         /\ pc' = "makeGraph"
         /\ UNCHANGED << gn, gm, gfm, g, graph, todo, s, sorted, result >>

makeGraph == /\ pc = "makeGraph"
             /\ IF todo # {}
                   THEN /\ \E t \in todo:
                             /\ graph' = AddTx(g, graph, t)
                             /\ todo' = todo \ {t}
                        /\ pc' = "makeGraph"
                   ELSE /\ pc' = "graphRoots"
                        /\ UNCHANGED << graph, todo >>
             /\ UNCHANGED << gn, gm, gfm, g, s, sorted, result >>

graphRoots == /\ pc = "graphRoots"
              /\ \E order \in Perms({h \in DOMAIN graph : graph[h].inDegree = 0}):
                   s' = [k \in 1..Len(order) |-> graph[order[k]].value]
              /\ pc' = "shortcut"
              /\ UNCHANGED << gn, gm, gfm, g, graph, todo, sorted, result >>

shortcut == /\ pc = "shortcut"
            /\ IF Len(s) = g.n
                  THEN /\ result' = s
                       /\ pc' = "Done"
                  ELSE /\ pc' = "kahn"
                       /\ UNCHANGED result
            /\ UNCHANGED << gn, gm, gfm, g, graph, todo, s, sorted >>

kahn == /\ pc = "kahn"
        /\ IF Len(s) # 0
              THEN /\ LET tx == Head(s) IN
                        LET r == Relax(graph, Tail(s), graph[Head(s)].outEdges, 1) IN
                          /\ sorted' = Append(sorted, tx)
                          /\ graph' = r.graph
                          /\ s' = r.s
                   /\ pc' = "kahn"
                   /\ UNCHANGED result
              ELSE /\ result' = sorted
                   /\ pc' = "Done"
                   /\ UNCHANGED << graph, s, sorted >>
        /\ UNCHANGED << gn, gm, gfm, g, todo >>

(* Allow infinite stuttering to prevent deadlock on termination. *)
Terminating == pc = "Done" /\ UNCHANGED vars

Next == start \/ makeGraph \/ graphRoots \/ shortcut \/ kahn
           \/ Terminating

Spec == /\ Init /\ [][Next]_vars
        /\ WF_vars(Next)

Termination == <>(pc = "Done")

\* END TRANSLATION

----------------------------------------------------------------------------
(* The property *)
Parents(gg, j) == {gg.ins[j][k][1] : k \in 1..Len(gg.ins[j])} \ {0}
Pos(q, x)      == CHOOSE k \in 1..Len(q) : q[k] = x

\* every transaction exactly once, each after every in-set transaction it spends from
IsValidOrder(gg, q) ==
    /\ Len(q) = gg.n
    /\ {q[k] : k \in 1..Len(q)} = 1..gg.n
    /\ \A j \in 1..gg.n : \A p \in Parents(gg, j) : Pos(q, p) < Pos(q, j)

PermsOf == [n \in 0..MaxN |-> Perms(1..n)]      \* evaluated once
ValidOrders(gg) ==
    {q \in PermsOf[gg.n] : \A j \in 1..gg.n : \A p \in Parents(gg, j) : Pos(q, p) < Pos(q, j)}

ParentsFirstEachOnce == pc = "Done" => IsValidOrder(g, result)

\* intermediate facts the argument rests on
Sane ==
    /\ pc \in {"kahn", "Done"} => Len(sorted) <= g.n
    /\ \A a, b \in 1..Len(sorted) : a # b => sorted[a] # sorted[b]
    /\ pc \in {"shortcut", "kahn"} => \A h \in DOMAIN graph : graph[h].value = h

(* Termination: no deadlock before Done (checked by TLC) and every step    *)
(* decreases a natural number; the quick configuration also checks the     *)
(* temporal formula Termination of the translation under weak fairness.    *)
Measure ==
    CASE pc = "start"      -> 4 * (MaxN + 2)
      [] pc = "makeGraph"  -> 3 * (MaxN + 2) + Cardinality(todo)
      [] pc = "graphRoots" -> 2 * (MaxN + 2) + 1
      [] pc = "shortcut"   -> 2 * (MaxN + 2)
      [] pc = "kahn"       -> (MaxN + 1) - Len(sorted)
      [] OTHER             -> 0
MeasureNat == Measure \in Nat
Progress   == [][Measure' < Measure]_vars

Inv == ParentsFirstEachOnce /\ Sane /\ MeasureNat

----------------------------------------------------------------------------
(* Export: one TRACE line per transaction set, printed in the state after    *)
(* the entry step (a non-initial state, so that TLC's workers share the job) *)
CaseOf(gg) == [n |-> gg.n, fm |-> gg.fm, ins |-> gg.ins,
               nvalid |-> Cardinality(ValidOrders(gg)), valid |-> ValidOrders(gg)]
EmitCase ==
    (pc = "makeGraph" /\ todo = 1..g.n /\ DOMAIN graph = {}) =>
        PrintT(<<"TRACE", ToJson(CaseOf(g))>>)
=============================================================================
