------------------------------ MODULE Birthday ------------------------------
(***************************************************************************)
(* C16, part (c): the search for the block from which scanning starts      *)
(* (wallet.locateBirthdayBlock), for every monotone sequence of block      *)
(* timestamps and every birthday.  Time is counted in hours.  The wallet   *)
(* stores its creation time minus 48 hours as birthday; no block whose     *)
(* timestamp is below (birthday + 48h) - 2h = birthday + 46h can contain a *)
(* payment to the wallet (timestamps may lag real time by two hours), so   *)
(* the block found must not be later than the first block at or above      *)
(* that time.  The search itself is transcribed step by step and the       *)
(* driver compares the height it returns with the real function's.         *)
(***************************************************************************)
EXTENDS Integers, Sequences, FiniteSets, TLC, Json

CONSTANTS N,        \* best height: blocks 0..N
          Steps,    \* gaps between consecutive block timestamps (hours), e.g. {0,1,3,23,24}
          Offsets,  \* birthdays explored: every block timestamp plus or minus one of these offsets (hours)
          MaxT      \* largest timestamp (hours)

VARIABLES ts,       \* [0..N -> hours], non-decreasing
          bday,     \* stored birthday (hours)
          left, right, result, done

vars == <<ts, bday, left, right, result, done>>
Delta == 2

RECURSIVE Seqs(_, _)
\* all non-decreasing timestamp sequences of length n+1 starting from t0 .. with steps 0..MaxStep
Seqs(n, last) == IF n = 0 THEN {<<>>}
                 ELSE UNION {{<<t>> \o s : s \in Seqs(n - 1, t)} : t \in {last + d : d \in Steps} \cap (0..MaxT)}

Init ==
    /\ ts \in {[i \in 0..N |-> s[i + 1]] : s \in Seqs(N + 1, 0)}
    /\ bday \in ({ts[h] + d : h \in 0..N, d \in Offsets} \cup {ts[h] - d : h \in 0..N, d \in Offsets}) \cap (0..MaxT)
    /\ left = 0 /\ right = N
    /\ result = -1 /\ done = FALSE

Step ==
    /\ ~done
    /\ LET mid == left + (right - left) \div 2 IN
       IF mid = 0 \/ mid = N \/ mid = left
       THEN result' = mid /\ done' = TRUE /\ UNCHANGED <<left, right>>
       ELSE IF ts[mid] - bday > Delta
       THEN right' = mid /\ UNCHANGED <<left, result, done>>
       ELSE IF ts[mid] - bday < -Delta
       THEN left' = mid /\ UNCHANGED <<right, result, done>>
       ELSE result' = mid /\ done' = TRUE /\ UNCHANGED <<left, right>>
    /\ UNCHANGED <<ts, bday>>

Next == Step
Spec == Init /\ [][Next]_vars /\ WF_vars(Step)

Payable == {h \in 0..N : ts[h] >= bday + 46}
FirstPayable == IF Payable = {} THEN N + 1 ELSE CHOOSE h \in Payable : \A k \in Payable : h <= k

\* the start block is never later than the first block that could pay the wallet
NotTooLate == done => result <= FirstPayable
\* and the search terminates
Terminates == <>done

Emit == done => PrintT(<<"CASE", ToJson([ts |-> [i \in 1..(N+1) |-> ts[i-1]], bday |-> bday, result |-> result])>>)
=============================================================================
