\* C19 quick: one manager, every version table with numbers in 1..4 in every declared order with
\* every nil pattern, stored version 0..5, a failure in every migration function (10 446 cases).
CONSTANTS
  Family = "mock1"
  MaxV = 4
INIT Init
NEXT Next
INVARIANT Inv EmitCase
CHECK_DEADLOCK FALSE
