------------------------------ MODULE TxStore ------------------------------
(***************************************************************************)
(* Abstract ("facts") specification of btcwallet's transaction store       *)
(* (wtxmgr.Store) as driven by the wallet: one action per database         *)
(* transaction the wallet performs.  Serves C01, C02, C12, C13.            *)
(*                                                                         *)
(* The state is the set of facts the properties talk about: which          *)
(* transactions of a static graph are known, in which block each is        *)
(* confirmed, which outputs are credited, which leases exist and what the  *)
(* clock says.  Every query of the store is an operator over these facts   *)
(* (Balance, Utxo, Details, ...) that states the property's sentence       *)
(* literally; the conformance driver replays TLC-generated behaviours on   *)
(* the real store and compares every query with the operator's value.     *)
(***************************************************************************)
EXTENDS Integers, Sequences, FiniteSets, TLC, Json

CONSTANTS
    GraphIds,     \* which transaction graphs of the family Init may choose
    MaxTip,       \* highest block height explored
    Mat,          \* coinbase maturity (the driver passes the same value)
    LeaseIds,     \* lease identifiers, e.g. {1,2}
    MaxNow,       \* clock bound (whole seconds)
    MaxHist,      \* bound on recorded history (generation configs)
    FullHist,     \* TRUE: record the expected observation at every step
    PathView      \* TRUE: track `rb` (see below) so that histories through reorgs are kept apart

VARIABLES
    g,        \* chosen graph id (static)
    tip,      \* height of the best chain as delivered to the wallet
    mined,    \* [Tx -> 0..MaxTip], 0 = not confirmed
    unm,      \* set of known unconfirmed transactions
    cred,     \* set of credited outpoints <<t,i>>
    lease,    \* [LeaseOps -> <<id, expiry>>] ; <<0,0>> = none
    now,      \* clock
    rb,       \* path abstraction: transactions that have been disconnected from a block at least once
              \* (no query depends on it; it only makes the exhaustive exploration keep apart states that
              \* were reached through a reorg, so that such histories are emitted and replayed, C02/C13)
    hist      \* recorded operations (and expectations when FullHist)

facts == <<g, tip, mined, unm, cred, lease, now>>
vars  == <<g, tip, mined, unm, cred, lease, now, rb, hist>>

----------------------------------------------------------------------------
(* The transaction graph family.  An outpoint is <<t, i>>; t = 0 denotes an *)
(* output of a transaction the wallet knows nothing about.                 *)
(*   ins[t]   sequence of outpoints spent by t                             *)
(*   nouts[t] number of outputs                                            *)
(*   mine[t]  indices of outputs paying wallet addresses                   *)
(*   chg[t]   indices (subset of mine) paying internal-branch addresses    *)
(*   cb[t]    coinbase flag                                                *)
(*   lops     outpoints on which lease actions are explored                *)

Graph(id) ==
  CASE id = 1 ->  \* chain with change
    [ n |-> 4,
      ins   |-> << <<<<0,1>>>>, <<<<1,0>>>>, <<<<2,0>>>>, <<<<3,0>>, <<1,1>>>> >>,
      nouts |-> <<2, 2, 1, 1>>,
      mine  |-> <<{0,1}, {0}, {0}, {0}>>,
      chg   |-> <<{1}, {}, {0}, {}>>,
      cb    |-> <<FALSE, FALSE, FALSE, FALSE>>,
      lops  |-> {<<1,0>>, <<2,0>>} ]
  [] id = 2 ->  \* fan-out / fan-in (diamond)
    [ n |-> 4,
      ins   |-> << <<<<0,1>>>>, <<<<1,0>>>>, <<<<1,1>>>>, <<<<2,0>>, <<3,0>>>> >>,
      nouts |-> <<2, 1, 1, 1>>,
      mine  |-> <<{0,1}, {0}, {0}, {0}>>,
      chg   |-> <<{}, {}, {0}, {}>>,
      cb    |-> <<FALSE, FALSE, FALSE, FALSE>>,
      lops  |-> {<<1,0>>, <<2,0>>} ]
  [] id = 3 ->  \* two conflicting spends, one with a descendant
    [ n |-> 4,
      ins   |-> << <<<<0,1>>>>, <<<<1,0>>>>, <<<<1,0>>>>, <<<<2,0>>>> >>,
      nouts |-> <<1, 1, 1, 1>>,
      mine  |-> <<{0}, {0}, {0}, {0}>>,
      chg   |-> <<{}, {0}, {}, {}>>,
      cb    |-> <<FALSE, FALSE, FALSE, FALSE>>,
      lops  |-> {<<1,0>>, <<2,0>>} ]
  [] id = 4 ->  \* coinbase, spend chain below it, an unrelated receipt
    [ n |-> 4,
      ins   |-> << <<>>, <<<<1,0>>>>, <<<<2,0>>>>, <<<<0,1>>>> >>,
      nouts |-> <<1, 2, 1, 1>>,
      mine  |-> <<{0}, {0}, {0}, {0}>>,
      chg   |-> <<{}, {0}, {}, {}>>,
      cb    |-> <<TRUE, FALSE, FALSE, FALSE>>,
      lops  |-> {<<1,0>>, <<4,0>>} ]
  [] id = 5 ->  \* several credits per tx, multi-edge, spend of a foreign output
    [ n |-> 4,
      ins   |-> << <<<<0,1>>>>, <<<<1,0>>, <<1,1>>>>, <<<<1,2>>, <<0,2>>>>, <<<<2,0>>, <<3,0>>>> >>,
      nouts |-> <<3, 1, 1, 2>>,
      mine  |-> <<{0,1}, {0}, {0}, {1}>>,
      chg   |-> <<{}, {0}, {}, {1}>>,
      cb    |-> <<FALSE, FALSE, FALSE, FALSE>>,
      lops  |-> {<<1,1>>, <<3,0>>} ]
  [] id = 6 ->  \* conflicting receipts (same foreign input), each with a spender
    [ n |-> 4,
      ins   |-> << <<<<0,1>>>>, <<<<0,1>>>>, <<<<1,0>>>>, <<<<2,0>>>> >>,
      nouts |-> <<1, 1, 1, 1>>,
      mine  |-> <<{0}, {0}, {0}, {0}>>,
      chg   |-> <<{}, {}, {0}, {0}>>,
      cb    |-> <<FALSE, FALSE, FALSE, FALSE>>,
      lops  |-> {<<1,0>>, <<2,0>>} ]
  [] id = 7 ->  \* coinbase whose output has two conflicting spenders
    [ n |-> 4,
      ins   |-> << <<>>, <<<<1,0>>>>, <<<<1,0>>>>, <<<<3,0>>>> >>,
      nouts |-> <<1, 1, 1, 1>>,
      mine  |-> <<{0}, {0}, {0}, {0}>>,
      chg   |-> <<{}, {}, {}, {}>>,
      cb    |-> <<TRUE, FALSE, FALSE, FALSE>>,
      lops  |-> {<<1,0>>} ]
  [] id = 8 ->  \* pure spend (no credit), partial conflict
    [ n |-> 4,
      ins   |-> << <<<<0,1>>>>, <<<<1,0>>>>, <<<<0,2>>>>, <<<<3,0>>, <<1,0>>>> >>,
      nouts |-> <<1, 1, 2, 1>>,
      mine  |-> <<{0}, {}, {0,1}, {0}>>,
      chg   |-> <<{}, {}, {}, {0}>>,
      cb    |-> <<FALSE, FALSE, FALSE, FALSE>>,
      lops  |-> {<<1,0>>, <<3,0>>} ]
  [] id = 9 ->  \* coinbase with a foreign output whose spender pays the wallet
    [ n |-> 3,
      ins   |-> << <<>>, <<<<1,1>>>>, <<<<2,0>>>> >>,
      nouts |-> <<2, 1, 1>>,
      mine  |-> <<{0}, {0}, {0}>>,
      chg   |-> <<{}, {}, {}>>,
      cb    |-> <<TRUE, FALSE, FALSE>>,
      lops  |-> {<<1,0>>} ]
  [] id = 10 -> \* six transactions: two coinbases, long chain, conflict (simulation)
    [ n |-> 6,
      ins   |-> << <<>>, <<<<1,0>>>>, <<<<2,0>>, <<0,1>>>>, <<<<2,0>>>>, <<>>, <<<<5,0>>, <<3,0>>>> >>,
      nouts |-> <<1, 2, 1, 1, 1, 2>>,
      mine  |-> <<{0}, {0,1}, {0}, {0}, {0}, {0}>>,
      chg   |-> <<{}, {1}, {}, {}, {}, {0}>>,
      cb    |-> <<TRUE, FALSE, FALSE, FALSE, TRUE, FALSE>>,
      lops  |-> {<<2,1>>, <<5,0>>} ]
  [] id = 11 -> \* six transactions: wide fan-out, re-merge, double conflict (simulation)
    [ n |-> 6,
      ins   |-> << <<<<0,1>>>>, <<<<1,0>>>>, <<<<1,1>>>>, <<<<1,2>>, <<2,0>>>>, <<<<1,2>>, <<3,0>>>>, <<<<4,0>>>> >>,
      nouts |-> <<3, 1, 1, 1, 1, 1>>,
      mine  |-> <<{0,1,2}, {0}, {0}, {0}, {0}, {0}>>,
      chg   |-> <<{2}, {}, {}, {0}, {}, {}>>,
      cb    |-> <<FALSE, FALSE, FALSE, FALSE, FALSE, FALSE>>,
      lops  |-> {<<1,2>>, <<2,0>>} ]
  [] id = 12 -> \* coinbase with two wallet outputs; one spender takes the first, another takes the second AND the first spender's output
    [ n |-> 3,
      ins   |-> << <<>>, <<<<1,0>>>>, <<<<1,1>>, <<2,0>>>> >>,
      nouts |-> <<2, 1, 1>>,
      mine  |-> <<{0,1}, {0}, {0}>>,
      chg   |-> <<{}, {}, {}>>,
      cb    |-> <<TRUE, FALSE, FALSE>>,
      lops  |-> {<<1,0>>} ]

NumGraphs == 12
\* the family is exported once per run so that the driver builds the same transactions
ASSUME PrintT(<<"GRAPHS", ToJson([i \in 1..NumGraphs |-> Graph(i)])>>)

G       == Graph(g)
Tx      == 1..G.n
Ins(t)  == {G.ins[t][k] : k \in 1..Len(G.ins[t])}
Outs(t) == {<<t, i>> : i \in 0..(G.nouts[t]-1)}
Mine(t) == {<<t, i>> : i \in G.mine[t]}
IsCb(t) == G.cb[t]
MaxOuts == 3
\* distinct powers of two, so a wrong sum names the wrong outputs
Val(op) == 2^((op[1]-1)*MaxOuts + op[2])
LeaseOps == G.lops
NoLease == <<0,0>>

RECURSIVE SumVal(_)
SumVal(S) == IF S = {} THEN 0 ELSE LET x == CHOOSE y \in S : TRUE IN Val(x) + SumVal(S \ {x})

----------------------------------------------------------------------------
(* Derived notions *)
Confirmed   == {t \in Tx : mined[t] # 0}
Known       == Confirmed \cup unm
Parents(t)  == {op[1] : op \in {o \in Ins(t) : o[1] # 0}}
SpendersIn(S, op) == {u \in S : op \in Ins(u)}
Spent(op)         == SpendersIn(Known, op) # {}
ConfSpent(op)     == SpendersIn(Confirmed, op) # {}
Active(op)  == op \in LeaseOps /\ lease[op] # NoLease /\ now < lease[op][2]
HiMined     == IF Confirmed = {} THEN 0
               ELSE CHOOSE h \in 0..MaxTip : (\E t \in Confirmed : mined[t] = h)
                                             /\ \A t \in Confirmed : mined[t] <= h

\* transitive closure: S plus every member of pool spending an output of the closure
RECURSIVE Closure(_, _)
Closure(S, pool) ==
    LET N == {u \in pool \ S : \E op \in Ins(u) : op[1] \in S}
    IN  IF N = {} THEN S ELSE Closure(S \cup N, pool)

Confl(t) == {u \in unm \ {t} : Ins(u) \cap Ins(t) # {}}

----------------------------------------------------------------------------
(* Queries = the properties' sentences over the facts *)
Confs(t, s) == IF mined[t] = 0 THEN 0 ELSE s - mined[t] + 1

\* C01: the spendable, unleased, sufficiently confirmed, matured credits
Counts(op, mc, s) ==
    /\ op \in cred /\ op[1] \in Known
    /\ ~Spent(op) /\ ~Active(op)
    /\ IF mined[op[1]] = 0 THEN mc = 0 ELSE Confs(op[1], s) >= mc
    /\ IsCb(op[1]) => Confs(op[1], s) >= Mat
Balance(mc, s) == SumVal({op \in cred : Counts(op, mc, s)})

UtxoSet == {op \in cred : op[1] \in Known /\ ~Spent(op) /\ ~Active(op)}
Utxo    == {[t |-> op[1], i |-> op[2], amt |-> Val(op), h |-> mined[op[1]], cb |-> IsCb(op[1])]
              : op \in UtxoSet}
\* what a rescan must watch: every credited output without a confirmed spender
Watch   == {op \in cred : op[1] \in Known /\ ~ConfSpent(op)}

\* C13: per-transaction details
Details(t) ==
    [ known  |-> t \in Known,
      h      |-> mined[t],
      credits |-> IF t \notin Known THEN {} ELSE
                  {[i |-> op[2], amt |-> Val(op), chg |-> op[2] \in G.chg[t], spent |-> Spent(op)]
                      : op \in Outs(t) \cap cred},
      debits |-> IF t \notin Known THEN {} ELSE
                  {[j |-> k - 1, amt |-> Val(G.ins[t][k])]
                      : k \in {k \in 1..Len(G.ins[t]) :
                                  G.ins[t][k] \in cred /\ G.ins[t][k][1] \in Known}} ]

\* C12: leases the listing must contain / may contain
LeaseList == {[t |-> op[1], i |-> op[2], id |-> lease[op][1], exp |-> lease[op][2]]
                : op \in {o \in LeaseOps : Active(o) /\ o \in cred /\ o[1] \in Known}}
LeaseMay  == {[t |-> op[1], i |-> op[2], id |-> lease[op][1], exp |-> lease[op][2]]
                : op \in {o \in LeaseOps : Active(o)}}

BalGrid == {<<mc, s>> : mc \in 0..(Mat+2), s \in HiMined..(tip+Mat+1)}

Obs == [ tip     |-> tip,
         now     |-> now,
         bal     |-> {<<p[1], p[2], Balance(p[1], p[2])>> : p \in BalGrid},
         utxo    |-> Utxo,
         watch   |-> Watch,
         unmined |-> unm,
         details |-> [t \in Tx |-> Details(t)],
         leases  |-> LeaseList,
         leasesMay |-> LeaseMay ]

----------------------------------------------------------------------------
Step(op, a, ret) ==
    hist' = Append(hist, [op |-> op, a |-> a, ret |-> ret,
                          exp |-> IF FullHist THEN Obs' ELSE <<>>])

Init ==
    /\ g \in GraphIds
    /\ tip = 0
    /\ mined = [t \in 1..Graph(g).n |-> 0]
    /\ unm = {}
    /\ cred = {}
    /\ lease = [op \in Graph(g).lops |-> NoLease]
    /\ now = 0
    /\ rb = {}
    /\ hist = <<>>

(* An unconfirmed transaction is seen (relevant-tx notification or own       *)
(* publication): InsertTx(nil) + AddCredit for each own output.  Repeated    *)
(* delivery, and delivery of an already confirmed transaction, change        *)
(* nothing.                                                                  *)
SeeUnmined(t) ==
    /\ ~IsCb(t)
    /\ Parents(t) \subseteq Known
    /\ \A op \in Ins(t) : SpendersIn(Confirmed \ {t}, op) = {}
    /\ IF t \in Known
       THEN UNCHANGED <<unm, cred>>
       ELSE /\ unm' = unm \cup {t}
            /\ cred' = cred \cup Mine(t)
    /\ UNCHANGED <<g, tip, mined, lease, now, rb>>
    /\ Step("SeeUnmined", [t |-> t], "ok")

(* A block is connected. *)
NewBlock ==
    /\ tip < MaxTip
    /\ tip' = tip + 1
    /\ UNCHANGED <<g, mined, unm, cred, lease, now, rb>>
    /\ Step("NewBlock", [h |-> tip + 1], "ok")

(* Transaction t is reported confirmed in the tip block: InsertTx(block) +   *)
(* AddCredit(block).  Every unconfirmed conflicting transaction and all of   *)
(* its unconfirmed descendants disappear; leases of the spent outputs end.   *)
CbInBlock(h) == {u \in Confirmed : mined[u] = h /\ IsCb(u)}
Confirm(t) ==
    /\ tip >= 1
    /\ mined[t] \in {0, tip}
    /\ Parents(t) \subseteq Confirmed
    /\ \A op \in Ins(t) : SpendersIn(Confirmed \ {t}, op) = {}
    /\ IsCb(t) => CbInBlock(tip) \subseteq {t}
    /\ IF mined[t] = tip
       THEN UNCHANGED <<mined, unm, cred, lease>>
       ELSE LET R == Closure(Confl(t), unm \ {t}) IN
            /\ mined' = [mined EXCEPT ![t] = tip]
            /\ unm'   = unm \ ({t} \cup R)
            /\ cred'  = (cred \cup Mine(t)) \ UNION {Outs(u) : u \in R}
            /\ lease' = [op \in LeaseOps |-> IF op \in Ins(t) THEN NoLease ELSE lease[op]]
    /\ UNCHANGED <<g, tip, now, rb>>
    /\ Step("Confirm", [t |-> t, h |-> tip], "ok")

(* Blocks at height h and above are disconnected (h = tip+1: nothing to do). *)
Rollback(h) ==
    /\ h \in 1..(tip+1)
    /\ LET D  == {t \in Confirmed : mined[t] >= h}
           CB == {t \in D : IsCb(t)}
           R  == Closure(CB, unm \cup D)
       IN  /\ mined' = [t \in Tx |-> IF t \in D THEN 0 ELSE mined[t]]
           /\ unm'   = (unm \cup D) \ R
           /\ cred'  = cred \ UNION {Outs(u) : u \in R}
           /\ rb'    = IF PathView THEN (rb \cup D) \ R ELSE rb
    /\ tip' = h - 1
    /\ UNCHANGED <<g, lease, now>>
    /\ Step("Rollback", [h |-> h], "ok")

(* The user abandons an unconfirmed transaction (RemoveUnminedTx). *)
Abandon(t) ==
    /\ t \in unm
    /\ LET R == Closure({t}, unm) IN
           /\ unm'  = unm \ R
           /\ cred' = cred \ UNION {Outs(u) : u \in R}
    /\ rb' = rb \ Closure({t}, unm)
    /\ UNCHANGED <<g, tip, mined, lease, now>>
    /\ Step("Abandon", [t |-> t], "ok")

(* The abandon of a transaction the store no longer knows is delivered again  *)
(* (C01: "including repeated delivery of the same event"): nothing changes.  *)
(* Explored where it could matter - another unconfirmed transaction spends   *)
(* one of the same outputs.                                                  *)
AbandonAgain(t) ==
    /\ ~IsCb(t) /\ t \notin Known
    /\ \E u \in unm : Ins(u) \cap Ins(t) # {}
    /\ UNCHANGED <<g, tip, mined, unm, cred, lease, now, rb>>
    /\ Step("Abandon", [t |-> t], "ok")

(* Leases.  An output is "known" for leasing when it is credited, its        *)
(* transaction is known and no confirmed transaction spends it; the case     *)
(* credited-but-confirmed-spent is left out (the property is silent).        *)
LeaseKnown(op) == op \in cred /\ op[1] \in Known /\ ~ConfSpent(op)
LeaseDefined(op) == op \in cred /\ op[1] \in Known => ~ConfSpent(op)

Lease(op, id, d) ==
    /\ LeaseDefined(op)
    /\ now + d <= MaxNow + 1
    /\ UNCHANGED <<g, tip, mined, unm, cred, now, rb>>
    /\ LET a == [t |-> op[1], i |-> op[2], id |-> id, d |-> d] IN
       IF ~LeaseKnown(op)
       THEN UNCHANGED lease /\ Step("Lease", a, "unknown")
       ELSE IF Active(op) /\ lease[op][1] # id
       THEN UNCHANGED lease /\ Step("Lease", a, "locked")
       ELSE /\ lease' = [lease EXCEPT ![op] = <<id, now + d>>]
            /\ Step("Lease", a, "ok")

Release(op, id) ==
    /\ LeaseKnown(op)
    /\ UNCHANGED <<g, tip, mined, unm, cred, now, rb>>
    /\ LET a == [t |-> op[1], i |-> op[2], id |-> id] IN
       IF Active(op) /\ lease[op][1] # id
       THEN UNCHANGED lease /\ Step("Release", a, "notallowed")
       ELSE /\ lease' = [lease EXCEPT ![op] = NoLease]
            /\ Step("Release", a, "ok")

(* The clock advances by one second; leases whose expiry is reached can      *)
(* never be active again and are forgotten by the model.                     *)
Tick ==
    /\ now < MaxNow
    /\ now' = now + 1
    /\ lease' = [op \in LeaseOps |-> IF lease[op] # NoLease /\ lease[op][2] <= now + 1
                                     THEN NoLease ELSE lease[op]]
    /\ UNCHANGED <<g, tip, mined, unm, cred, rb>>
    /\ Step("Tick", [d |-> 1], "ok")

Sweep ==    \* DeleteExpiredLockedOutputs: no observable effect
    /\ UNCHANGED <<facts, rb>>
    /\ Step("Sweep", <<>>, "ok")

Restart ==  \* close and reopen the store: no observable effect
    /\ UNCHANGED <<facts, rb>>
    /\ Step("Restart", <<>>, "ok")

LeaseNext ==
    \/ \E op \in LeaseOps, id \in LeaseIds, d \in 1..2 : Lease(op, id, d)
    \/ \E op \in LeaseOps, id \in LeaseIds : Release(op, id)
    \/ Tick

ChainNext ==
    \/ \E t \in Tx : SeeUnmined(t) \/ Confirm(t) \/ Abandon(t) \/ AbandonAgain(t)
    \/ NewBlock
    \/ \E h \in 1..(MaxTip+1) : Rollback(h)

Next == ChainNext \/ LeaseNext \/ Sweep \/ Restart
\* exhaustive exploration leaves out the two no-op actions (they are in NextAll)
NextCore == ChainNext \/ LeaseNext

Spec     == Init /\ [][Next]_vars
SpecCore == Init /\ [][NextCore]_vars

----------------------------------------------------------------------------
(* Invariants checked by TLC on the design *)
TypeOK ==
    /\ tip \in 0..MaxTip
    /\ \A t \in Tx : mined[t] \in 0..tip
    /\ unm \subseteq Tx
    /\ now \in 0..MaxNow

\* the facts always describe a state a validating node could have produced
ChainConsistent ==
    /\ unm \cap Confirmed = {}
    /\ \A t \in Known : Parents(t) \subseteq Known
    /\ \A t \in Confirmed : \A p \in Parents(t) : p \in Confirmed /\ mined[p] <= mined[t]
    /\ \A t \in unm : ~IsCb(t)
    \* no outpoint has two confirmed spenders, and no unconfirmed transaction
    \* conflicts with a confirmed one (conflict removal is complete)
    /\ \A t \in Confirmed : \A op \in Ins(t) : SpendersIn(Known \ {t}, op) = {}
    /\ \A h \in 1..MaxTip : Cardinality(CbInBlock(h)) <= 1

CreditsOfKnown ==
    /\ \A op \in cred : op[1] \in Known /\ op \in Mine(op[1])
    /\ \A t \in Known : Mine(t) \subseteq cred

\* relations between independent formulations of the queries
QueriesAgree ==
    LET far == tip + Mat + 1 IN
    /\ Balance(0, far) = SumVal(UtxoSet)
    /\ \A mc \in 0..(Mat+1) : Balance(mc+1, far) <= Balance(mc, far)
    /\ \A s \in HiMined..tip : Balance(0, s) <= Balance(0, s+1)
    /\ UtxoSet \subseteq Watch
    /\ \A op \in LeaseOps : Active(op) => op \notin UtxoSet
    /\ \A t \in Tx : \A c \in Details(t).credits :
           c.spent <=> \E u \in Known : \E d \in Details(u).debits : G.ins[u][d.j+1] = <<t, c.i>>
    /\ \A u \in Known : \A d \in Details(u).debits : d.amt = Val(G.ins[u][d.j+1])

Inv == TypeOK /\ ChainConsistent /\ CreditsOfKnown /\ QueriesAgree

(* C02 as action properties, stated from the property's sentence rather     *)
(* than from the action definitions.                                        *)
IsRollbackTo(h) == tip' = h - 1 /\ tip >= h
ReorgSemantics ==
    [][\A h \in 1..MaxTip : IsRollbackTo(h) =>
         LET D  == {t \in Confirmed : mined[t] >= h}
             CB == {t \in D : IsCb(t)}
         IN  /\ \A t \in D \ Closure(CB, Known) :       \* survivors become unconfirmed, credits intact
                   t \in unm' /\ mined'[t] = 0 /\ Mine(t) \subseteq cred'
             /\ \A t \in Closure(CB, Known) :            \* coinbases and dependants vanish
                   t \notin unm' /\ mined'[t] = 0 /\ Outs(t) \cap cred' = {}
             /\ \A t \in Known \ (D \cup Closure(CB, Known)) :   \* everything else untouched
                   mined'[t] = mined[t] /\ (t \in unm <=> t \in unm')
    ]_facts

ConfirmSemantics ==
    [][\A t \in Tx : (mined[t] = 0 /\ mined'[t] # 0) =>
         /\ \A u \in unm \ {t} :
               (u \in Closure(Confl(t), unm \ {t})) <=> (u \notin unm')
         /\ \A u \in unm' : u \in unm
    ]_facts

(* A lease never ends other than by release, expiry or a confirmed spend. *)
LeaseSemantics ==
    [][\A op \in LeaseOps : (Active(op) /\ ~Active(op)') =>
          \/ now' >= lease[op][2]
          \/ (\E t \in Tx : mined[t] = 0 /\ mined'[t] # 0 /\ op \in Ins(t))
          \/ (hist'[Len(hist')].op = "Release" /\ hist'[Len(hist')].a.id = lease[op][1])
    ]_vars

----------------------------------------------------------------------------
(* Exploration support *)
View      == <<facts, rb>>
HistBound == Len(hist) < MaxHist
\* one behaviour per transition of the (view-reduced) state graph
\* one behaviour per transition of the (view-reduced) state graph; the Pre variant also carries the
\* observation expected BEFORE the last step (needed by the fault enumeration of C10)
EmitStep  == PrintT(<<"TRACE", ToJson([g |-> g, mat |-> Mat, steps |-> hist', exp |-> Obs'])>>)
EmitStepPre == PrintT(<<"TRACE", ToJson([g |-> g, mat |-> Mat, steps |-> hist', pre |-> Obs, exp |-> Obs'])>>)
\* simulation: print the behaviour when it reaches full length
EmitFull  == (Len(hist) >= MaxHist) => PrintT(<<"TRACE", ToJson([g |-> g, mat |-> Mat, steps |-> hist])>>)
=============================================================================
