----------------------------- MODULE QueueTrace -----------------------------
(***************************************************************************)
(* Trace validation for C18: is every recorded run of the real             *)
(* chain.ConcurrentQueue a behaviour of Queue.tla?                         *)
(*                                                                         *)
(* trace.ndjson (written by harness/cmd/trace-queue) is the concatenation  *)
(* of many recorded runs; each run is                                      *)
(*   {"ev":"reset","run":r,"B":b,"n":n,"nsent":s,"recv":[..],...}         *)
(*   {"ev":"in"|"handoff"|"push"|"enq"|"out"|"quit"|"exit",                *)
(*    "run":r,"k":i,"item":x,"ov":len,"st":bool}      (worker events)      *)
(*   {"ev":"end","run":r,...}                                              *)
(* The worker's events were emitted by the single worker goroutine after   *)
(* each of its operations: their order is the real order, so every event   *)
(* must be matched, in order, by the corresponding disjunct of the         *)
(* worker's actions W / W2 of Queue.tla (same item, same overflow length   *)
(* afterwards).  The steps of the producer, the consumer and Stop are not  *)
(* in that total order (no wall-clock merge): they are interleaved freely  *)
(* (unlogged steps), constrained only by the facts that ARE sound:         *)
(*   - at "end": what the consumer received (its own order), the number of *)
(*     sends the producer completed, nothing left in chanOut (the driver   *)
(*     drains it after the worker's exit);                                 *)
(*   - "st" on an event: Stop() had returned before that event's hook call *)
(*     returned, so every later worker step runs with quit closed.         *)
(*                                                                         *)
(* Because of the unlogged steps the depth of the search is not the number *)
(* of matched events; the high-water mark of the line index l is kept in   *)
(* TLC register 1 (run with -workers 1).  POSTCONDITION TraceAccepted      *)
(* requires it to be Len(Trace)+1 and otherwise prints the first line      *)
(* that no behaviour of Queue.tla could match (run, event index).          *)
(***************************************************************************)
EXTENDS Queue, Json

VARIABLES l,      \* index of the next line of Trace to match
          hdr     \* index of the reset line of the run being matched; 0 between runs

tvars == <<l, hdr>>

Trace == ndJsonDeserialize("trace.ndjson")

Ev == Trace[l]
IsEv(e) == l <= Len(Trace) /\ Ev.ev = e

\* advance and remember how far any behaviour got (evaluated last in every logged action)
Adv == /\ l' = l + 1
       /\ hdr' = hdr
       /\ IF l + 1 > TLCGet(1) THEN TLCSet(1, l + 1) ELSE TRUE

\* Stop() had returned before the previous event's hook call returned => quit is closed now
StopKnown == (l - 1 > hdr /\ Trace[l - 1].st) => quit

InitPc == [self \in ProcSet |-> CASE self = "p" -> "P"
                                  [] self = "w" -> "W"
                                  [] self = "c" -> "C"
                                  [] self = "s" -> "S"]

TraceInit ==
  /\ l = 1 /\ hdr = 0
  /\ B = 0 /\ offering = FALSE /\ next = 1 /\ chanOut = <<>> /\ crecv = FALSE
  /\ received = <<>> /\ overflow = <<>> /\ quit = FALSE /\ item = 0
  /\ pc = InitPc
  /\ TLCSet(1, 1)

\* a new recorded run: the queue of Queue.tla's Init with the run's buffer size
Reset ==
  /\ hdr = 0
  /\ IsEv("reset")
  /\ B' = Ev.B
  /\ offering' = FALSE /\ next' = 1 /\ chanOut' = <<>> /\ crecv' = FALSE
  /\ received' = <<>> /\ overflow' = <<>> /\ quit' = FALSE /\ item' = 0
  /\ pc' = InitPc
  /\ hdr' = l /\ l' = l + 1
  /\ IF l + 1 > TLCGet(1) THEN TLCSet(1, l + 1) ELSE TRUE

\* end of a run: the facts recorded by the driver's own goroutines
End ==
  /\ hdr > 0
  /\ IsEv("end")
  /\ pc["w"] = "Done"
  /\ Len(received) = Len(Trace[hdr].recv)
  /\ \A i \in 1..Len(received) : received[i] = Trace[hdr].recv[i]
  /\ chanOut = <<>>
  /\ Taken = Trace[hdr].nsent
  /\ UNCHANGED vars
  /\ l' = l + 1 /\ hdr' = 0
  /\ IF l + 1 > TLCGet(1) THEN TLCSet(1, l + 1) ELSE TRUE

\* ---- worker events: each is one disjunct of W / W2 of Queue.tla ----
EvIn ==        \* outer select, overflow empty: item := <-chanIn
  /\ IsEv("in") /\ StopKnown
  /\ W /\ pc'["w"] = "W2"
  /\ item' = Ev.item /\ Len(overflow') = Ev.ov
  /\ Adv

EvHandoff ==   \* inner select: chanOut <- item
  /\ IsEv("handoff") /\ StopKnown
  /\ item = Ev.item
  /\ W2 /\ pc'["w"] = "W" /\ overflow' = overflow
  /\ Len(received') + Len(chanOut') = Len(received) + Len(chanOut) + 1
  /\ Len(overflow') = Ev.ov
  /\ Adv

EvPush ==      \* inner select: default, PushBack(item)
  /\ IsEv("push") /\ StopKnown
  /\ item = Ev.item
  /\ W2 /\ pc'["w"] = "W" /\ overflow' = Append(overflow, Ev.item)
  /\ Len(overflow') = Ev.ov
  /\ Adv

EvEnq ==       \* outer select, overflow non-empty: item := <-chanIn; PushBack(item)
  /\ IsEv("enq") /\ StopKnown
  /\ W /\ pc'["w"] = "W" /\ overflow' = Append(overflow, Ev.item)
  /\ Len(overflow') = Ev.ov
  /\ Adv

EvOut ==       \* outer select, overflow non-empty: chanOut <- Front; Remove(Front)
  /\ IsEv("out") /\ StopKnown
  /\ overflow # <<>> /\ Head(overflow) = Ev.item
  /\ W /\ pc'["w"] = "W" /\ overflow' = Tail(overflow)
  /\ Len(received') + Len(chanOut') = Len(received) + Len(chanOut) + 1
  /\ Len(overflow') = Ev.ov
  /\ Adv

EvQuit ==      \* any of the three `case <-cq.quit: return`
  /\ IsEv("quit") /\ StopKnown
  /\ (W \/ W2) /\ pc'["w"] = "Done"
  /\ Len(overflow') = Ev.ov
  /\ Adv

EvExit ==      \* the deferred event: the goroutine returned
  /\ IsEv("exit")
  /\ pc["w"] = "Done"
  /\ Len(overflow) = Ev.ov
  /\ UNCHANGED vars
  /\ Adv

\* ---- steps of the other goroutines: not in the worker's total order ----
Unlogged ==
  /\ \/ (P /\ next <= Trace[hdr].n)     \* the recorded producer sends n items
     \/ PW
     \/ consumer
     \/ stopper
  /\ UNCHANGED tvars

TraceNext ==
  \/ Reset
  \/ End
  \/ (hdr > 0 /\ (EvIn \/ EvHandoff \/ EvPush \/ EvEnq \/ EvOut \/ EvQuit \/ EvExit \/ Unlogged))

TraceSpec == TraceInit /\ [][TraceNext]_<<vars, tvars>>

\* the matched prefix of every behaviour satisfies the safety properties of Queue.tla as well
TraceInv == hdr > 0 => (InOrder /\ HandoffOnlyWhenEmpty)

TraceAccepted ==
  LET hw == TLCGet(1) IN
  IF hw = Len(Trace) + 1 THEN TRUE
  ELSE /\ PrintT(<<"CASE", ToJson([line |-> hw, total |-> Len(Trace), ev |-> Trace[hw]])>>)
       /\ FALSE
=============================================================================
