------------------------------ MODULE SealMgr ------------------------------
(***************************************************************************)
(* C17 at manager level, the part Seal.tla (sequential) cannot see:        *)
(* Manager.Encrypt / Manager.Decrypt select the crypto key and then use    *)
(* it; Manager.Lock wipes the private and the script key IN PLACE.  The    *)
(* property - "what was encrypted under a key decrypts to the original     *)
(* bytes, never data under another key" - therefore depends on the whole   *)
(* select-then-use section being one critical section with respect to      *)
(* Lock.  The model has one worker inside Encrypt or Decrypt (two steps:   *)
(* Begin = mutex taken, key selected; Finish = key used, mutex released),  *)
(* and a controller calling Lock (two steps: the call, and the moment it   *)
(* obtains the mutex and wipes) and Unlock.                                *)
(*                                                                         *)
(* UseMutex = FALSE is the broken design (key used outside the mutex):     *)
(* TLC finds the interleaving Begin, LockCall, LockTake, Finish in which a *)
(* ciphertext is sealed under the wiped key - MC_SealMgr_broken.cfg must   *)
(* report a violation of SealedUnderRealKey.                               *)
(*                                                                         *)
(* Conformance: each behaviour is replayed on a real waddrmgr.Manager with *)
(* real goroutines; the worker is parked at the hook "crypt.keyselected",  *)
(* the controller's Lock runs in its own goroutine.  The verdict comes     *)
(* from the real outcome only: every ciphertext Encrypt returned without   *)
(* error must decrypt to its plaintext once the manager is unlocked again, *)
(* and Decrypt of a good ciphertext must return its plaintext.             *)
(***************************************************************************)
EXTENDS Integers, Sequences, FiniteSets, TLC, Json

CONSTANTS
    UseMutex,    \* TRUE: the code's design
    KeyTypes,    \* subset of {"pub","priv","script"}
    MaxOps,      \* worker operations per behaviour
    MaxHist

VARIABLES
    locked,       \* manager locked
    keyMem,       \* "real" | "zero": private and script crypto keys in memory
    mtx,          \* "free" | "worker"
    w,            \* [stage: "idle"|"selected", op: "enc"|"dec", kt]
    lockPending,  \* Lock has been called and has not obtained the mutex yet
    out,          \* results: set of [n, op, kt, key]  (key the operation really used)
    nops,
    hist

state == <<locked, keyMem, mtx, w, lockPending, out, nops>>
vars  == <<locked, keyMem, mtx, w, lockPending, out, nops, hist>>

Idle == [stage |-> "idle", op |-> "enc", kt |-> "pub"]
Step(op, a, ret) == hist' = Append(hist, [op |-> op, a |-> a, ret |-> ret])

Init ==
    /\ locked = FALSE /\ keyMem = "real" /\ mtx = "free" /\ w = Idle
    /\ lockPending = FALSE /\ out = {} /\ nops = 0 /\ hist = <<>>

(* the worker enters Encrypt/Decrypt: takes the mutex, selects the key *)
Begin(op, kt) ==
    /\ w.stage = "idle" /\ mtx = "free" /\ ~lockPending /\ nops < MaxOps
    /\ nops' = nops + 1
    /\ IF kt # "pub" /\ locked
       THEN /\ UNCHANGED <<locked, keyMem, mtx, w, lockPending, out>>
            /\ Step("Begin", [op |-> op, kt |-> kt, n |-> nops + 1], "locked")
       ELSE /\ w' = [stage |-> "selected", op |-> op, kt |-> kt]
            /\ mtx' = IF UseMutex THEN "worker" ELSE "free"
            /\ UNCHANGED <<locked, keyMem, lockPending, out>>
            /\ Step("Begin", [op |-> op, kt |-> kt, n |-> nops + 1], "parked")

(* the worker uses the key it selected - the bytes as they are NOW - and leaves *)
Finish ==
    /\ w.stage = "selected"
    /\ LET used == IF w.kt = "pub" THEN "real" ELSE keyMem IN
       /\ out' = out \cup {[n |-> nops, op |-> w.op, kt |-> w.kt, key |-> used]}
       /\ Step("Finish", [op |-> w.op, kt |-> w.kt, n |-> nops], "ok")
    /\ w' = Idle
    /\ mtx' = "free"
    /\ UNCHANGED <<locked, keyMem, lockPending, nops>>

LockCall ==
    /\ ~lockPending /\ ~locked
    /\ lockPending' = TRUE
    /\ UNCHANGED <<locked, keyMem, mtx, w, out, nops>>
    /\ Step("LockCall", <<>>, "ok")

LockTake ==
    /\ lockPending
    /\ mtx = "free"               \* with UseMutex = FALSE the worker never holds it
    /\ locked' = TRUE /\ keyMem' = "zero" /\ lockPending' = FALSE
    /\ UNCHANGED <<mtx, w, out, nops>>
    /\ Step("LockTake", <<>>, "ok")

Unlock ==
    /\ locked /\ ~lockPending /\ mtx = "free" /\ w.stage = "idle"
    /\ locked' = FALSE /\ keyMem' = "real"
    /\ UNCHANGED <<mtx, w, lockPending, out, nops>>
    /\ Step("Unlock", <<>>, "ok")

Next ==
    \/ \E op \in {"enc", "dec"}, kt \in KeyTypes : Begin(op, kt)
    \/ Finish
    \/ LockCall
    \/ LockTake
    \/ Unlock

Spec == Init /\ [][Next]_vars

(* C17: whatever Encrypt returned is sealed under the real key; Decrypt of  *)
(* a good ciphertext used the real key (so it returns the plaintext).       *)
SealedUnderRealKey == \A r \in out : r.key = "real"
MutexDiscipline    == (UseMutex /\ w.stage = "selected") => mtx = "worker"
TypeOK ==
    /\ locked \in BOOLEAN /\ keyMem \in {"real", "zero"} /\ mtx \in {"free", "worker"}
    /\ w.stage \in {"idle", "selected"} /\ lockPending \in BOOLEAN
    /\ (locked <=> keyMem = "zero")
Inv == TypeOK /\ SealedUnderRealKey /\ MutexDiscipline

View      == state
HistBound == Len(hist) < MaxHist
EmitStep  == PrintT(<<"TRACE", ToJson([mode |-> "mgrconc", steps |-> hist'])>>)
=============================================================================
