\* C07 conformance cases, family "f12": P2PKH coins of an UNCOMPRESSED key (candidate finding F12).
\* Every case is exported with the outcome the specification predicts; Inv is checked on every case.
CONSTANTS
  Family = "f12"
  NRandom = 0
INIT Init
NEXT Next
INVARIANT Inv
ACTION_CONSTRAINT EmitCase
CHECK_DEADLOCK FALSE
