\* C16(a): window 2, child indices 0..7, up to two invalid children anywhere
CONSTANTS
  W = 2
  MaxIdx = 7
  MaxHist = 30
INIT Init
NEXT Next
VIEW View
INVARIANT Inv
ACTION_CONSTRAINT EmitStep
CHECK_DEADLOCK FALSE
