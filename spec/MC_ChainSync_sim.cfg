\* random walks: 3 wallet transactions, up to 7 blocks above the birthday block, reorg depth <= 3
CONSTANTS
  Txs = {1, 2, 3}
  MaxLen = 7
  MaxDepth = 3
  MinKeep = 0
  MaxBlocks = 40
  Acts = {"StartDuringReorg", "Shrink", "Reconnect"}
  MaxHist = 25
  FullHist = TRUE
INIT Init
NEXT Next
INVARIANT Inv EmitFull
CHECK_DEADLOCK FALSE
