\* C17 quick, ciphertext cases: 3 keys, plaintext lengths 0..3 (ciphertexts of 40..43 bytes),
\* every single-bit flip (and its undo), every truncation length, one appended byte,
\* Decrypt under every key in every reached state, second encryption of the same plaintext.
CONSTANTS
  Mode = "aead"
  Keys = {1,2,3}
  PtLens = {0,1,2,3}
  MaxFlips = 1
  Passphrases = {"Passw0rd"}
  BlobFlipPws = {"Passw0rd"}
  ParamSets <- ParamSetsOne
  RandomCases = 0
  LongLens <- LongLensStd
  MaxHist = 8
INIT Init
NEXT Next
VIEW View
INVARIANT Inv
ACTION_CONSTRAINT EmitStep
CHECK_DEADLOCK FALSE
