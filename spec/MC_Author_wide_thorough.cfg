\* C07 conformance cases, family "wide": 254, 300, 500 and 1000 requested outputs.
\* Every case is exported with the outcome the specification predicts; Inv is checked on every case.
CONSTANTS
  Family = "wide"
  NRandom = 0
INIT Init
NEXT Next
INVARIANT Inv
ACTION_CONSTRAINT EmitCase
CHECK_DEADLOCK FALSE
