\* C15 quick: 2 wallet transactions, up to 3 blocks above the birthday block, reorg depth <= 2,
\* at most 7 blocks ever created; reorgs keep the block right above the birthday block (MinKeep = 0).
CONSTANTS
  Txs = {1, 2}
  MaxLen = 3
  MaxDepth = 2
  MinKeep = 0
  MaxBlocks = 7
  Acts = {"StartDuringReorg", "Shrink", "Reconnect"}
  MaxHist = 40
  FullHist = FALSE
INIT Init
NEXT Next
VIEW View
INVARIANT Inv
PROPERTY StaleIgnored
ACTION_CONSTRAINT EmitStep
CHECK_DEADLOCK FALSE
