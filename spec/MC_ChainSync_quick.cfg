\* C15 quick: 2 wallet transactions, up to 3 blocks above the birthday block, reorg depth <= 2,
\* at most 6 blocks ever created (the repeated-notification bookkeeping multiplies states); reorgs keep the block right above the birthday block (MinKeep = 0).
CONSTANTS
  Txs = {1, 2}
  MaxLen = 3
  MaxDepth = 2
  MinKeep = 0
  MaxBlocks = 6
  Acts = {"StartDuringReorg", "Shrink"}
  MaxHist = 40
  FullHist = FALSE
INIT Init
NEXT Next
VIEW View
INVARIANT Inv
PROPERTY StaleIgnored
ACTION_CONSTRAINT EmitStep
CHECK_DEADLOCK FALSE
