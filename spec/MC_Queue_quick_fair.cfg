\* C18 quick: the same with a weakly fair consumer; adds AllDelivered.
\* Constants: N = 4 items (the producer sends 1..N, so every burst length up to N), buffer sizes Bs = {0, 1, 2}
\* (B is chosen in Init: all sizes are explored in one run); fault switch set: none
\* (all switches FALSE = the code as it is).
\* No state constraint: N bounds the state space, so the liveness check is sound.
SPECIFICATION SpecFair
CONSTANTS
  N = 4
  Bs = {0, 1, 2}
  PopBack = FALSE
  NoDefault = FALSE
  WeakHandoff = FALSE
  DropWhenFull = FALSE
  NoQuit = FALSE
INVARIANTS TypeOK InOrder Conservation HandoffOnlyWhenEmpty
PROPERTIES NoOvertake ProducerCompletes StopTerminates AllDelivered
CHECK_DEADLOCK FALSE
