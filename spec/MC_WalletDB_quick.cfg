\* C11 quick: one top-level bucket, keys {"", "a", "ab"}, values {"", "x"}, depth 2, sequences 0..1,
\* one reader (one read transaction per behaviour), one write transaction (manual or managed with
\* each outcome) of up to 2 tree-changing operations.  2 092 distinct states / 125 009 transitions.
CONSTANTS
  Keys <- KeysS
  Vals <- ValsS
  Tops <- Tops1
  Readers = {"r1"}
  MaxDepth = 2
  MaxSeq = 1
  MaxWTx = 1
  MaxRTx = 1
  MaxOps = 2
  MaxHist = 60
  FullHist = FALSE
INIT Init
NEXT Next
VIEW View
INVARIANT Inv
PROPERTY Atomicity Visibility ReadYourWrites Isolation ReadOnlyRejects ErrorsChangeNothing CursorOrder Namespaces
ACTION_CONSTRAINT EmitStep
CHECK_DEADLOCK FALSE
