\* C05/C04 thorough ("lock" family): unlock with right / wrong passphrases, lock, passphrase changes
\* (committed and rolled back), conversion to watching-only, restart, a few issuing and derivation
\* operations so that caches are populated in every lock state. 1 scope, <= 2 accounts, indices 0..1.
CONSTANTS
  Scopes = {"bip84"}
  MaxIdx = 1
  MaxAccts = 2
  PWs = {"p1", "p2", "p3"}
  PubPWs = {"pub1", "pub2"}
  Names = {"alice"}
  XNames = {"xacct"}
  ImpIds = {"k1", "s1"}
  MaxSync = 0
  Outcomes = {"commit", "rollback"}
  Acts = {"NextAddr", "Lookup", "DerivePath", "DeriveCache", "NewAccount", "ImportXpub", "Import", "Unlock", "Lock", "ChangePriv", "ChangePub", "ConvertWO", "Restart"}
  NoRollback = {}
  MaxHist = 60
  FullHist = FALSE
INIT Init
NEXT Next
VIEW View
INVARIANT Inv
PROPERTY IndicesMonotone NothingForgotten RollbackIsNoop UnlockOnlyWithPw WatchOnlyForever
ACTION_CONSTRAINT EmitStep
CHECK_DEADLOCK FALSE
