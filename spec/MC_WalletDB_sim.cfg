\* C11 simulation: long random walks with every action and larger constants: two top-level buckets,
\* keys {"", 0x00, "a", "ab", "b", 0xff}, values {"", "x", "y"}, depth 2, two readers, up to 8 write and
\* 8 read transactions of up to 6 tree-changing operations; the expected observation is recorded
\* at every step (FullHist).  Run with -simulate num=N -depth 41.
CONSTANTS
  Keys <- KeysL
  Vals <- ValsL
  Tops <- Tops2
  Readers = {"r1", "r2"}
  MaxDepth = 2
  MaxSeq = 3
  MaxWTx = 8
  MaxRTx = 8
  MaxOps = 6
  MaxHist = 40
  FullHist = TRUE
INIT Init
NEXT NextSim
INVARIANT Inv EmitFull
CHECK_DEADLOCK FALSE
