\* C17, manager level: Encrypt/Decrypt critical section against a concurrent Lock.
CONSTANTS
  UseMutex = TRUE
  KeyTypes = {"pub", "priv", "script"}
  MaxOps = 3
  MaxHist = 40
INIT Init
NEXT Next
VIEW View
INVARIANT Inv
CONSTRAINT HistBound
ACTION_CONSTRAINT EmitStep
CHECK_DEADLOCK FALSE
