-------------------------- MODULE AddrIssueTrace --------------------------
(***************************************************************************)
(* Trace validation for C09: recorded executions of the real wallet's      *)
(* issuing calls (one "gate" event when a caller's commit callback is      *)
(* reached, one "done" event with the index it was given) are checked      *)
(* against AddrIssue.tla.  All other steps of the specification are silent.*)
(* Many recorded scenarios are concatenated, separated by "reset" events.   *)
(* A trace is accepted iff some behaviour of the specification consumes    *)
(* every event, which TLC reports as a violation of NotAccepted.           *)
(***************************************************************************)
EXTENDS AddrIssue, Json

Trace == ndJsonDeserialize("trace.ndjson")

VARIABLES l, gated, doneSeen
tvars == <<pc, mem, disk, mutex, dbw, issued, idx, l, gated, doneSeen>>

TraceInit ==
    /\ Init
    /\ l = 1
    /\ gated = [k \in Callers |-> FALSE]
    /\ doneSeen = [k \in Callers |-> FALSE]

IsEvent(e) == l <= Len(Trace) /\ Trace[l].ev = e

\* a step of the specification that the code does not log
Silent ==
    /\ \E self \in Callers :
          /\ caller(self)
          /\ pc[self] = "cb" => gated[self]     \* the callback only runs after its gate event
    /\ UNCHANGED <<l, gated, doneSeen>>

EvGate ==
    /\ IsEvent("gate")
    /\ LET k == Trace[l].c IN
       /\ pc[k] = "cb" /\ ~gated[k]
       /\ gated' = [gated EXCEPT ![k] = TRUE]
    /\ l' = l + 1
    /\ UNCHANGED <<pc, mem, disk, mutex, dbw, issued, idx, doneSeen>>

EvDone ==
    /\ IsEvent("done")
    /\ LET k == Trace[l].c IN
       /\ pc[k] = "Done" /\ issued[k] = Trace[l].idx /\ ~doneSeen[k]
       /\ doneSeen' = [doneSeen EXCEPT ![k] = TRUE]
    /\ l' = l + 1
    /\ UNCHANGED <<pc, mem, disk, mutex, dbw, issued, idx, gated>>

EvReset ==
    /\ IsEvent("reset")
    /\ mem' = 0 /\ disk' = 0 /\ mutex' = FALSE /\ dbw' = FALSE
    /\ issued' = [k \in Callers |-> -1]
    /\ idx' = [self \in Callers |-> -1]
    /\ pc' = [self \in ProcSet |-> "acq"]
    /\ gated' = [k \in Callers |-> FALSE]
    /\ doneSeen' = [k \in Callers |-> FALSE]
    /\ l' = l + 1

TraceNext == Silent \/ EvGate \/ EvDone \/ EvReset
TraceSpec == TraceInit /\ [][TraceNext]_tvars

NotAccepted == l <= Len(Trace)
\* how far the longest matched prefix got (reported when a trace is rejected)
Progress == TLCSet(1, IF l > TLCGet(1) THEN l ELSE TLCGet(1))
=============================================================================
