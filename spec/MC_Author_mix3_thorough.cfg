\* C07 conformance cases, family "mix3": as "mix" in three coin orders (ascending, descending, round-robin).
\* Every case is exported with the outcome the specification predicts; Inv is checked on every case.
CONSTANTS
  Family = "mix3"
  NRandom = 0
INIT Init
NEXT Next
INVARIANT Inv
ACTION_CONSTRAINT EmitCase
CHECK_DEADLOCK FALSE
