---------------------------- MODULE RecoveryScan ----------------------------
(***************************************************************************)
(* C16, part (b): usage patterns a wallet restored from seed must recover. *)
(*                                                                         *)
(* A behaviour builds a chain block by block.  Each block pays addresses   *)
(* <<scope, branch, index>> of the default account and may spend outputs   *)
(* received in earlier blocks.  The look-ahead condition of the property   *)
(* is the enabling condition: a block only pays indices at most W beyond   *)
(* the highest index paid on that branch in EARLIER blocks (a jump skips   *)
(* at most W-1 unused addresses).  At any point the wallet may be started  *)
(* with recovery window W ("Recover"), stopped again and restarted later   *)
(* (interrupted and resumed recovery).  The specification computes what a  *)
(* complete recovery must have found.                                      *)
(***************************************************************************)
EXTENDS Integers, Sequences, FiniteSets, TLC, Json

CONSTANTS
    W,          \* recovery window
    Scopes,     \* e.g. {"bip84", "bip86"}
    MaxIdx,     \* highest index used
    MaxBlocks,  \* blocks after the birthday block
    MaxPay,     \* payments per block
    Unlocked,   \* set of BOOLEAN: recover locked and/or unlocked
    Filler,     \* every empty block of a behaviour stands for this many additional empty blocks
                \* (2100 pushes the pattern across the 2000-block recovery batch boundary)
    MaxHist

VARIABLES
    blocks,     \* Seq of [pays: set of <<scope, branch, index>>, spends: set of <<blockno, addr>>]
    hi,         \* [Scopes \X {0,1} -> -1..MaxIdx] highest index paid so far per branch
    unspent,    \* set of <<blockno, addr>> outputs not yet spent
    recovered,  \* number of blocks the wallet had seen at its last (re)start, -1 = never started
    unl,        \* wallet unlocked during recovery
    hist

vars == <<blocks, hi, unspent, recovered, unl, hist>>
Branches == Scopes \X {0, 1}
Addr == Scopes \X {0, 1} \X (0..MaxIdx)

MaxOf(S) == CHOOSE m \in S : \A j \in S : j <= m
Used == UNION {blocks[k].pays : k \in 1..Len(blocks)}
NextIdx == [br \in Branches |-> hi[br] + 1]

Obs == [ nblocks |-> Len(blocks),
         used |-> Used,
         next |-> {<<br[1], br[2], hi[br] + 1>> : br \in Branches},
         unspent |-> unspent,
         ntx |-> Cardinality({k \in 1..Len(blocks) : blocks[k].pays # {} \/ blocks[k].spends # {}}) ]

Init ==
    /\ blocks = <<>>
    /\ hi = TLCEval([br \in Branches |-> -1])
    /\ unspent = {}
    /\ recovered = -1
    /\ unl \in Unlocked
    /\ hist = <<>>

(* a block paying the set P and spending the set S of earlier outputs *)
AddBlock(P, S) ==
    /\ Len(blocks) < MaxBlocks
    /\ Cardinality(P) <= MaxPay /\ Cardinality(S) <= 1
    \* (a block may spend without paying the wallet anything: the last unspent output can go away, so a resumed
    \*  recovery may start with nothing unspent)
    /\ \A a \in P : a[3] <= hi[<<a[1], a[2]>>] + W          \* the look-ahead condition
    /\ S \subseteq unspent
    /\ blocks' = Append(blocks, [pays |-> P, spends |-> S])
    /\ hi' = TLCEval([br \in Branches |-> MaxOf({a[3] : a \in {x \in P : x[1] = br[1] /\ x[2] = br[2]}} \cup {hi[br]})])
    /\ unspent' = (unspent \ S) \cup {<<Len(blocks) + 1, a>> : a \in P}
    /\ UNCHANGED <<recovered, unl>>
    /\ hist' = Append(hist, [op |-> "AddBlock", pays |-> P, spends |-> S, exp |-> <<>>])

(* start the restored wallet (or restart it): it must end up knowing everything *)
Recover ==
    /\ Len(blocks) > recovered /\ Len(blocks) > 0
    /\ recovered' = Len(blocks)
    /\ UNCHANGED <<blocks, hi, unspent, unl>>
    /\ hist' = Append(hist, [op |-> "Recover", pays |-> {}, spends |-> {}, exp |-> Obs])

\* payment sets of at most two addresses (MaxPay <= 2), spends of at most one earlier output
PaySets == {{}} \cup {{a} : a \in Addr} \cup {{a, b} : a \in Addr, b \in Addr}
SpendSets == {{}} \cup {{u} : u \in unspent}
Next ==
    \/ \E P \in PaySets, S \in SpendSets : AddBlock(P, S)
    \/ Recover
Spec == Init /\ [][Next]_vars

\* the enabling condition really is the property's condition: every used index was within
\* reach of the window, and the branch's next index is above everything used
LookAheadRespected == \A a \in Used : a[3] <= hi[<<a[1], a[2]>>]
NextAboveUsed == \A a \in Used : NextIdx[<<a[1], a[2]>>] > a[3]
UnspentWerePaid == \A u \in unspent : u[1] \in 1..Len(blocks) /\ u[2] \in blocks[u[1]].pays
Inv == LookAheadRespected /\ NextAboveUsed /\ UnspentWerePaid

View == <<blocks, recovered, unl>>
\* behaviours are emitted at each Recover (the expectation sits in the step)
EmitStep == (hist' # hist /\ hist'[Len(hist')].op = "Recover") =>
                PrintT(<<"TRACE", ToJson([w |-> W, unlocked |-> unl, filler |-> Filler, steps |-> hist'])>>)
=============================================================================
