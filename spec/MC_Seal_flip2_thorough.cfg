\* C17 thorough, double flips: 1 key, plaintext length 1 (41-byte ciphertext), every PAIR of flipped bits
\* (a tag bit together with a body/nonce bit, two bits of one byte, ...), Decrypt in every state.
CONSTANTS
  Mode = "aead"
  Keys = {1}
  PtLens = {1}
  MaxFlips = 2
  Passphrases = {"Passw0rd"}
  BlobFlipPws = {"Passw0rd"}
  ParamSets <- ParamSetsOne
  RandomCases = 0
  LongLens <- LongLensStd
  MaxHist = 8
INIT Init
NEXT Next
VIEW View
INVARIANT Inv
ACTION_CONSTRAINT EmitStep
CHECK_DEADLOCK FALSE
