\* C19 thorough: as quick with numbers in 1..5 and stored version 0..6 (144 032 cases).
CONSTANTS
  Family = "mock1"
  MaxV = 5
INIT Init
NEXT Next
INVARIANT Inv EmitCase
CHECK_DEADLOCK FALSE
