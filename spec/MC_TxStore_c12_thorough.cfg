\* C12 thorough: lease actions with two identifiers and a clock, on graphs with a
\* chain, a conflict pair and a coinbase.
CONSTANTS
  GraphIds = {1,3,4,7}
  MaxTip = 3
  Mat = 2
  LeaseIds = {1,2}
  MaxNow = 3
  MaxHist = 40
  PathView = FALSE
  FullHist = FALSE
INIT Init
NEXT NextCore
VIEW View
INVARIANT Inv
PROPERTY ReorgSemantics ConfirmSemantics LeaseSemantics
ACTION_CONSTRAINT EmitStep
CHECK_DEADLOCK FALSE
