\* Bucket-layer refinement, deeper: three block heights, two lease identifiers, longer clock.
CONSTANTS
  GraphIds = {1,2,3,4,5,6,7,8,9,10,11,12}
  MaxTip = 3
  Mat = 2
  LeaseIds = {1,2}
  MaxNow = 2
  MaxHist = 40
  PathView = FALSE
  FullHist = FALSE
INIT InitImpl
NEXT NextImpl
VIEW ImplView
INVARIANT ImplInv
CHECK_DEADLOCK FALSE
