\* C16(b) batch boundary: window 2, every empty block stands for 2100 more, so that payments sit on both
\* sides of the 2000-block recovery batch
CONSTANTS
  W = 2
  Scopes = {"bip84"}
  MaxIdx = 2
  MaxBlocks = 3
  MaxPay = 1
  Unlocked = {FALSE}
  Filler = 2100
  MaxHist = 10
INIT Init
NEXT Next
VIEW View
INVARIANT Inv
ACTION_CONSTRAINT EmitStep
CHECK_DEADLOCK FALSE
