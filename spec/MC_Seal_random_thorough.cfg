\* C17 thorough, 10^4 seeded (VERIF_SEED) pseudo-random single-bit flips on plaintexts of 256..4096 bytes.
CONSTANTS
  Mode = "random"
  Keys = {1,2,3}
  PtLens = {0}
  MaxFlips = 1
  Passphrases = {"Passw0rd"}
  BlobFlipPws = {"Passw0rd"}
  ParamSets <- ParamSetsOne
  RandomCases = 10000
  LongLens <- LongLensStd
  MaxHist = 8
INIT Init
NEXT Next
VIEW View
INVARIANT Inv
ACTION_CONSTRAINT EmitStep
CHECK_DEADLOCK FALSE
