\* C15 thorough: 2 wallet transactions, up to 4 blocks above the birthday block, reorg depth <= 2,
\* at most 8 blocks ever created; reorgs keep the block right above the birthday block (MinKeep = 0).
CONSTANTS
  Txs = {1, 2}
  MaxLen = 4
  MaxDepth = 2
  MinKeep = 0
  MaxBlocks = 8
  Acts = {"StartDuringReorg", "Shrink", "Reconnect"}
  MaxHist = 40
  FullHist = FALSE
INIT Init
NEXT Next
VIEW View
INVARIANT Inv
PROPERTY StaleIgnored
ACTION_CONSTRAINT EmitStep
CHECK_DEADLOCK FALSE
