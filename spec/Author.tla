------------------------------- MODULE Author -------------------------------
(***************************************************************************)
(* Transaction authoring (txauthor.NewUnsignedTransaction with the size    *)
(* estimator of txsizes and the fee / dust rules of txrules).  Serves C07. *)
(*                                                                         *)
(* The module states what the property REQUIRES of an authored             *)
(* transaction and is the oracle of the conformance driver:                *)
(*   - sizes are written from the Bitcoin serialization rules (BIP 141/144 *)
(*     layout, compact-size integers, worst-case element sizes), not from  *)
(*     size.go;                                                            *)
(*   - FeeFor is the relay-fee rule rate * size / 1000 (integer);          *)
(*   - the dust rule is mempool.IsDust as used by txrules.IsDustOutput;    *)
(*   - Loop is the fix-point loop of NewUnsignedTransaction against an     *)
(*     input source that hands out coins in a given order.                 *)
(* One behaviour = one case: Init chooses a case of the selected family,   *)
(* every Loop step is one iteration of the for-loop, the last one decides  *)
(* on the change output and records the outcome in `out`.                  *)
(*                                                                         *)
(* Modelled quirk of the implementation (Q1, harmless, see SizeSafe): the  *)
(* witness section is CHARGED as 2 + CompactSize(#witness inputs) + the    *)
(* stacks of the witness inputs, whereas the serialization has no such     *)
(* count but one empty-stack byte per non-witness input (WitnessRules).    *)
(* The estimate always contains the change output, also when none is added.*)
(***************************************************************************)
EXTENDS Integers, Sequences, FiniteSets, TLC, Json, IOUtils

CONSTANTS
    Family,     \* which family of cases Init enumerates (see CaseSet)
    NRandom     \* number of seeded random cases (family "random")

VARIABLES
    c,      \* the case (static): coins offered in order, requested outputs, change script, rate
    k,      \* number of coins the input source has handed out so far
    fee,    \* targetFee of the loop
    iter,   \* iterations so far
    out     \* outcome; out.res = "run" while the loop is running

vars == <<c, k, fee, iter, out>>

----------------------------------------------------------------------------
(* Serialization rules *)

CompactSize(n) == IF n < 253 THEN 1 ELSE IF n < 65536 THEN 3 ELSE 5
Push(n)        == 1 + n                          \* direct data push, n <= 75
TxInSize(scriptLen)  == 32 + 4 + CompactSize(scriptLen) + scriptLen + 4
TxOutSize(scriptLen) == 8 + CompactSize(scriptLen) + scriptLen

\* input types: K = P2PKH (compressed key), U = P2PKH of an uncompressed key (the
\* estimator cannot tell it from K), W = P2WPKH, N = P2WPKH nested in P2SH, T = P2TR key path
InTypes   == <<"K", "W", "N", "T", "U">>
IsWitness(t) == t \in {"W", "N", "T"}

\* worst case element sizes: DER signature up to 72 bytes + sighash byte,
\* Schnorr signature 64 bytes + optional sighash byte, compressed key 33 bytes
ScriptSigWorst(t) == CASE t \in {"K", "U"} -> Push(73) + Push(33)
                       [] t = "N" -> Push(22)
                       [] OTHER -> 0
WitnessWorst(t)   == CASE t \in {"W", "N"} -> CompactSize(2) + (CompactSize(73) + 73) + (CompactSize(33) + 33)
                       [] t = "T" -> CompactSize(1) + (CompactSize(65) + 65)
                       [] OTHER -> CompactSize(0)      \* empty stack of a non-witness input
\* what btcd's signer really produces at most: low-S DER <= 71 bytes + sighash,
\* SIGHASH_DEFAULT Schnorr signatures of 64 bytes, uncompressed key 65 bytes
ScriptSigReal(t)  == CASE t = "K" -> Push(72) + Push(33)
                       [] t = "U" -> Push(72) + Push(65)
                       [] t = "N" -> Push(22)
                       [] OTHER -> 0
WitnessReal(t)    == CASE t \in {"W", "N"} -> CompactSize(2) + (CompactSize(72) + 72) + (CompactSize(33) + 33)
                       [] t = "T" -> CompactSize(1) + (CompactSize(64) + 64)
                       [] OTHER -> CompactSize(0)

\* output script types and their lengths
OutLen(t) == CASE t = "P2PKH" -> 25 [] t = "P2SH" -> 23 [] t = "P2WPKH" -> 22
               [] t = "P2WSH" -> 34 [] t = "P2TR" -> 34
OutIsWitnessProgram(t) == t \in {"P2WPKH", "P2WSH", "P2TR"}

\* cnt: [InTypes' elements -> number of inputs of that type]
Types     == {"K", "W", "N", "T", "U"}
NIn(cnt)  == cnt["K"] + cnt["W"] + cnt["N"] + cnt["T"] + cnt["U"]
NWit(cnt) == cnt["W"] + cnt["N"] + cnt["T"]
SumT(cnt, F(_)) == cnt["K"] * F("K") + cnt["W"] * F("W") + cnt["N"] * F("N") + cnt["T"] * F("T") + cnt["U"] * F("U")

InWorst(t) == TxInSize(ScriptSigWorst(t))
InReal(t)  == TxInSize(ScriptSigReal(t))
WitIfWitness(t) == IF IsWitness(t) THEN WitnessWorst(t) ELSE 0

\* non-witness serialization: version, inputs, outputs, locktime
BaseSize(cnt, nouts, outBytes, In(_)) ==
    4 + CompactSize(NIn(cnt)) + SumT(cnt, In) + CompactSize(nouts) + outBytes + 4
\* witness serialization by the rules: marker, flag, one stack per input
WitnessRules(cnt, Wit(_)) == IF NWit(cnt) = 0 THEN 0 ELSE 2 + SumT(cnt, Wit)
\* witness weight as charged by the authoring code (quirk Q1)
WitnessCharged(cnt) == IF NWit(cnt) = 0 THEN 0
                       ELSE 2 + CompactSize(NWit(cnt)) + SumT(cnt, WitIfWitness)
VSize(base, wit) == base + (wit + 3) \div 4

\* bytes of the requested outputs and of the change output of case x
ReqOutBytes(x) == x.nout * TxOutSize(OutLen(x.otype))
ChgOutBytes(x) == TxOutSize(OutLen(x.ctype))

\* the worst-case estimate the authored fee is based on: the change output is
\* always part of it and is COUNTED in the output-count compact size
EstVSize(cnt, x) ==
    VSize(BaseSize(cnt, x.nout + 1, ReqOutBytes(x) + ChgOutBytes(x), InWorst), WitnessCharged(cnt))
\* the same by the serialization rules alone
WorstVSize(cnt, x) ==
    VSize(BaseSize(cnt, x.nout + 1, ReqOutBytes(x) + ChgOutBytes(x), InWorst), WitnessRules(cnt, WitnessWorst))
\* the largest virtual size the signed transaction can really have
MaxSignedVSize(cnt, x, withChange) ==
    VSize(BaseSize(cnt, x.nout + (IF withChange THEN 1 ELSE 0),
                   ReqOutBytes(x) + (IF withChange THEN ChgOutBytes(x) ELSE 0), InReal),
          WitnessRules(cnt, WitnessReal))

----------------------------------------------------------------------------
(* Fee and dust rules (txrules) *)
RelayFloor == 1000          \* txrules.DefaultRelayFeePerKb, sat/kvB

\* rate * size / 1000 in integers, split so that TLC's 32-bit integers suffice;
\* a result of 0 is raised to the rate itself (inert for rates >= the floor)
FeeFor(rate, size) ==
    LET f == (rate \div 1000) * size + ((rate % 1000) * size) \div 1000
    IN  IF f = 0 /\ rate > 0 THEN rate ELSE f

\* mempool.GetDustThreshold: 3 * (output size + 41 + 107 or, for a witness program, 107/4)
DustDiv(t)  == 3 * (TxOutSize(OutLen(t)) + 41 + (IF OutIsWitnessProgram(t) THEN 107 \div 4 ELSE 107))
\* mempool.IsDust: value * 1000 / GetDustThreshold < relay fee  (with relay fee 1000: value < DustDiv)
IsDust(v, t) == IF v > 2000000 THEN FALSE ELSE (v * 1000) \div DustDiv(t) < RelayFloor
DustT(t)     == DustDiv(t)  \* smallest non-dust amount at the relay floor

----------------------------------------------------------------------------
(* Case families *)

RECURSIVE SumTo(_, _)
SumTo(s, n) == IF n = 0 THEN 0 ELSE s[n] + SumTo(s, n - 1)

CountsOf(types, n) == [t \in Types |-> Cardinality({i \in 1..n : types[i] = t})]

Rep(t, n) == [i \in 1..n |-> t]
Max(a, b) == IF a > b THEN a ELSE b
Min(a, b) == IF a < b THEN a ELSE b

RECURSIVE RoundRobin(_, _, _, _)
RoundRobin(a, b, w, d) ==
    IF a + b + w + d = 0 THEN <<>>
    ELSE (IF a > 0 THEN <<"K">> ELSE <<>>) \o (IF b > 0 THEN <<"W">> ELSE <<>>)
         \o (IF w > 0 THEN <<"N">> ELSE <<>>) \o (IF d > 0 THEN <<"T">> ELSE <<>>)
         \o RoundRobin(Max(a - 1, 0), Max(b - 1, 0), Max(w - 1, 0), Max(d - 1, 0))

\* a = #P2PKH, b = #P2WPKH, w = #nested, d = #P2TR
MixSeq(a, b, w, d, order) ==
    CASE order = "asc"  -> Rep("K", a) \o Rep("W", b) \o Rep("N", w) \o Rep("T", d)
      [] order = "desc" -> Rep("T", d) \o Rep("N", w) \o Rep("W", b) \o Rep("K", a)
      [] order = "rr"   -> RoundRobin(a, b, w, d)

DeltaKinds == <<"short1", "exact", "plus1", "dust-1", "dust", "dust+1", "big">>
Delta(dk, ct) == CASE dk = "short1" -> -1 [] dk = "exact" -> 0 [] dk = "plus1" -> 1
                   [] dk = "dust-1" -> DustT(ct) - 1 [] dk = "dust" -> DustT(ct) [] dk = "dust+1" -> DustT(ct) + 1
                   [] dk = "big" -> 54321

OutTypes == <<"P2PKH", "P2SH", "P2WPKH", "P2WSH", "P2TR">>
ChgTypes == <<"P2PKH", "P2WPKH", "P2TR">>
Rates    == <<1000, 1001, 2500, 25000, 1000000>>
OV       == 1000       \* value of every requested output but the last (which takes the rest)

PrefixSums(vals) == [i \in 1..(Len(vals) + 1) |-> SumTo(vals, i - 1)]

\* The amounts are placed on a boundary: the first j coins exceed the requested
\* amount by exactly Fee(estimate for those j coins) + delta.  With requested
\* outputs the target is chosen, with none (target 0) the value of coin j.
MkCase(fam, types, j, dk, nout, ot, ct, rate, V) ==
    LET m     == Len(types)
        x0    == [nout |-> nout, otype |-> ot, ctype |-> ct]
        feej  == FeeFor(rate, EstVSize(CountsOf(types, j), x0))
        d     == Delta(dk, ct)
        plain == nout > 0 \/ j = 0           \* coin i is worth V + 1000 i
        vals  == IF plain
                 THEN [i \in 1..m |-> V + 1000 * i]
                 ELSE [i \in 1..m |-> IF i < j THEN i
                                      ELSE IF i = j THEN feej + d - ((j * (j - 1)) \div 2)
                                      ELSE V + 1000 * i]
        \* prefix sums in closed form (no recursion: up to 254 coins)
        tri(n) == (n * (n + 1)) \div 2
        pre   == IF plain
                 THEN [i \in 1..(m + 1) |-> (i - 1) * V + 1000 * tri(i - 1)]
                 ELSE [i \in 1..(m + 1) |-> IF i - 1 < j THEN tri(i - 1)
                                            ELSE feej + d + (i - 1 - j) * V + 1000 * (tri(i - 1) - tri(j))]
        tgt   == IF nout = 0 THEN 0
                 ELSE IF j = 0 THEN nout * OV
                 ELSE pre[j + 1] - feej - d
    IN  [fam |-> fam, types |-> types, vals |-> vals, pre |-> pre, j |-> j, dk |-> dk,
         nout |-> nout, otype |-> ot, ctype |-> ct, rate |-> rate, target |-> tgt, ov |-> OV]

Cyc(seq, i) == seq[1 + (i % Len(seq))]

\* (TLC evaluates zero-arity constant definitions eagerly at start-up; the large families
\* therefore take a dummy parameter u so that only the selected one is ever built)
\* "small": the model-checking family -- every sequence of up to 3 coins over the four
\* types and a few values, small targets; amounts not on constructed boundaries
SmallVals(tier)  == IF tier = "quick" THEN {250, 600, 30000} ELSE {250, 600, 1100, 30000}
SmallSeqs(tier)  == UNION {[1..n -> {"K", "W", "N", "T"} \X SmallVals(tier)] : n \in 0..3}
SmallCases(tier) ==
    {[fam |-> "small", types |-> [i \in DOMAIN s |-> s[i][1]], vals |-> [i \in DOMAIN s |-> s[i][2]],
      pre |-> PrefixSums([i \in DOMAIN s |-> s[i][2]]), j |-> 0, dk |-> "none",
      nout |-> no, otype |-> "P2WPKH", ctype |-> ct, rate |-> rate, target |-> no * tv, ov |-> tv]
        : s \in SmallSeqs(tier), no \in {0, 1, 2}, tv \in (IF tier = "quick" THEN {300, 29000} ELSE {300, 547, 29000}), ct \in {"P2PKH", "P2WPKH", "P2TR"}, rate \in {1000, 2500}}

\* "mix": every input mix 0..3 of each type, every rate, every boundary amount
MixCases(orders, maxc) ==
    {MkCase("mix", MixSeq(a, b, w, d, o), a + b + w + d, dk, 1,
            Cyc(OutTypes, a + 2 * b + 3 * w + d), Cyc(ChgTypes, a + b + w + 2 * d + rate), rate, 100000000)
        : a \in 0..maxc, b \in 0..maxc, w \in 0..maxc, d \in 0..maxc, o \in orders,
          dk \in {DeltaKinds[i] : i \in 1..6}, rate \in {Rates[i] : i \in 1..5}}

\* "outs": output counts around the compact-size boundary x output type x change type x rate x boundary
OutsMixes(tier) == IF tier = "quick"
                   THEN {<<1,0,0,0>>, <<0,1,0,0>>, <<0,0,1,0>>, <<0,0,0,1>>, <<1,1,1,1>>, <<2,0,1,3>>}
                   ELSE {<<1,0,0,0>>, <<0,1,0,0>>, <<0,0,1,0>>, <<0,0,0,1>>, <<1,1,1,1>>, <<2,0,1,3>>,
                         <<0,2,0,0>>, <<3,3,3,3>>, <<0,0,2,1>>, <<2,1,0,0>>, <<0,3,0,2>>, <<1,0,0,2>>}
OutsCases(tier, nouts) ==
    {MkCase("outs", MixSeq(mx[1], mx[2], mx[3], mx[4], "asc"), mx[1] + mx[2] + mx[3] + mx[4], dk, no, ot, ct, rate, 100000000)
        : mx \in OutsMixes(tier), no \in nouts,
          ot \in {OutTypes[i] : i \in 1..5}, ct \in {ChgTypes[i] : i \in 1..3},
          dk \in {DeltaKinds[i] : i \in 1..6}, rate \in {Rates[i] : i \in 1..5}}

\* "order": the boundary lies at a proper prefix of the offered coins, in three orders
OrderCases(maxc) ==
    {MkCase("order", MixSeq(q[1], q[2], q[3], q[4], o), Max(1, ((q[1] + q[2] + q[3] + q[4]) * jn) \div 3), dk, 2,
            Cyc(OutTypes, q[1] + q[2]), Cyc(ChgTypes, q[3] + q[4]), rate, 100000000)
        : q \in {y \in (0..maxc) \X (0..maxc) \X (0..maxc) \X (0..maxc) : y[1] + y[2] + y[3] + y[4] >= 2},
          o \in {"asc", "desc", "rr"}, jn \in 1..2,
          dk \in {"short1", "exact", "plus1", "dust", "big"}, rate \in {1000, 25000}}

\* "many": input counts around the compact-size boundary
ManySeqs(u) == {Rep(t, n) : t \in {"K", "W", "N", "T"}, n \in {252, 253, 254}}
            \cup {Rep(t, 250) \o <<"K", "W", "N", "T">> : t \in {"K", "W", "N", "T"}}
            \cup {<<"W">> \o Rep("K", 252), <<"T">> \o Rep("K", 253)}
ManyCases(u) ==
    {MkCase("many", s, Len(s), dk, 1, "P2WPKH", "P2WPKH", rate, 1000000)
        : s \in ManySeqs(0), dk \in {"exact", "dust", "short1"}, rate \in {1000, 2500}}

\* "wide": several hundred requested outputs
WideCases(u) ==
    {MkCase("wide", MixSeq(mx[1], mx[2], mx[3], mx[4], "rr"), mx[1] + mx[2] + mx[3] + mx[4], dk, no, ot, ct, rate, 100000000)
        : mx \in {<<1,0,0,0>>, <<0,1,0,1>>, <<2,1,1,1>>}, no \in {254, 300, 500, 1000},
          ot \in {"P2PKH", "P2WSH"}, ct \in {ChgTypes[i] : i \in 1..3},
          dk \in {"exact", "dust-1", "dust", "short1"}, rate \in {1000, 1001, 25000}}

\* "f12": P2PKH coins of an uncompressed key (candidate finding F12)
F12Cases(u) ==
    {MkCase("f12", s, Len(s), dk, 1, "P2WPKH", "P2WPKH", rate, 100000000)
        : s \in {<<"U">>, <<"U", "U">>, <<"U", "W">>, <<"K", "U", "T">>}, dk \in {"exact", "dust", "big"}, rate \in {1000, 25000}}

\* "random": seeded pseudo-random coin multisets, amounts and output lists (no constructed boundary)
Seed == IF "VERIF_SEED" \in DOMAIN IOEnv THEN atoi(IOEnv.VERIF_SEED) % 1000 ELSE 1
Rnd(i, salt, range) ==
    ((((i * 7919 + Seed * 104729 + ((salt * 15485863) % 1000003)) % 1000003) * 2003 + 12345) % 1000003) % range
RandomCase(i) ==
    LET m     == Rnd(i, 1, 9)
        types == [n \in 1..m |-> <<"K", "W", "N", "T">>[1 + Rnd(i, 10 + n, 4)]]
        vals  == [n \in 1..m |-> 300 + Rnd(i, 30 + n, 1000000) * (1 + Rnd(i, 50 + n, 3) * 40)]
        no    == <<0, 1, 2, 3, 7, 250, 251, 252, 253>>[1 + Rnd(i, 2, 9)]
        pre   == PrefixSums(vals)
        tot   == pre[m + 1]
        want  == (tot \div 1000) * Rnd(i, 3, 1100)       \* 0 .. 110 % of the offered total
        tgt   == IF no = 0 THEN 0 ELSE Max(want, no * OV)
    IN  [fam |-> "random", types |-> types, vals |-> vals, pre |-> pre, j |-> 0, dk |-> "none",
         nout |-> no, otype |-> OutTypes[1 + Rnd(i, 4, 5)], ctype |-> ChgTypes[1 + Rnd(i, 5, 3)],
         rate |-> <<1000, 1001, 1234, 2500, 9999, 25000, 123457, 1000000>>[1 + Rnd(i, 6, 8)],
         target |-> tgt, ov |-> OV]
RandomCases(u) == {RandomCase(i) : i \in 1..NRandom}

Sane(x) == (x.nout = 0 => x.j >= 1 \/ x.fam \in {"small", "random"}) /\ (x.nout > 0 => x.target >= x.nout * x.ov)

CaseSet ==
    {x \in (CASE Family = "small"        -> SmallCases("quick")
              [] Family = "smallT"       -> SmallCases("thorough")
              [] Family = "mix"          -> MixCases({"asc"}, 3)
              [] Family = "mix3"         -> MixCases({"asc", "desc", "rr"}, 3)
              [] Family = "outs"         -> OutsCases("quick", {0, 1, 2, 251, 252, 253})
              [] Family = "outsT"        -> OutsCases("thorough", {0, 1, 2, 251, 252, 253})
              [] Family = "order"        -> OrderCases(2)
              [] Family = "order3"       -> OrderCases(3)
              [] Family = "many"         -> ManyCases(0)
              [] Family = "wide"         -> WideCases(0)
              [] Family = "f12"          -> F12Cases(0)
              [] Family = "random"       -> RandomCases(0)) : Sane(x)}

----------------------------------------------------------------------------
(* The case and the loop *)

NCoins  == Len(c.types)
Pre(n)  == c.pre[n + 1]                 \* value of the first n coins
Target  == c.target

\* the input source: keeps handing out coins until the total reaches `need`
Take(from, need) ==
    IF \E n \in from..NCoins : Pre(n) >= need
    THEN CHOOSE n \in from..NCoins : Pre(n) >= need /\ \A j \in from..(n - 1) : Pre(j) < need
    ELSE NCoins

Running == [res |-> "run", nin |-> 0, total |-> 0, fee |-> 0, change |-> 0, est |-> 0]

\* first estimate of NewUnsignedTransaction: one P2WPKH input
FirstCounts == [t \in Types |-> 0]

Init ==
    /\ c \in CaseSet
    /\ k = 0
    /\ fee = FeeFor(c.rate, EstVSize(FirstCounts, c))
    /\ iter = 0
    /\ out = Running

Loop ==
    /\ out.res = "run"
    /\ iter' = iter + 1
    /\ UNCHANGED c
    /\ LET n     == Take(k, Target + fee)
           total == Pre(n)
           cnt   == CountsOf(c.types, n)
           est   == EstVSize(cnt, c)
           req   == FeeFor(c.rate, est)
       IN  /\ k' = n
           /\ IF total < Target + fee
              THEN /\ out' = [Running EXCEPT !.res = "insufficient", !.nin = n, !.total = total]
                   /\ UNCHANGED fee
              ELSE IF total - Target < req
              THEN /\ fee' = req                     \* ask again with the fee of the larger estimate
                   /\ UNCHANGED out
              ELSE LET chg  == total - Target - req
                       keep == chg # 0 /\ ~IsDust(chg, c.ctype)   \* change output added?
                   IN  /\ out' = [res |-> "ok", nin |-> n, total |-> total, est |-> est,
                                  change |-> IF keep THEN chg ELSE 0,
                                  fee |-> IF keep THEN req ELSE total - Target]
                       /\ UNCHANGED fee

Next == Loop
Spec == Init /\ [][Next]_vars /\ WF_vars(Next)

----------------------------------------------------------------------------
(* What the property requires of the outcome (checked by TLC in every state) *)

Done == out.res # "run"
UsedCounts == CountsOf(c.types, out.nin)
HasU == \E i \in 1..NCoins : c.types[i] = "U"

\* "has inputs totalling exactly outputs plus fee"
Conservation == out.res = "ok" => out.total = Target + out.change + out.fee /\ out.total = Pre(out.nin)
\* "never adds a dust or zero-value change output" (change = 0 encodes: no change output)
NoDustChange == out.res = "ok" => (out.change = 0 \/ (out.change > 0 /\ ~IsDust(out.change, c.ctype) /\ out.change >= DustT(c.ctype)))
\* "no higher than the rate applied to the worst-case size estimate plus one dust threshold"
FeeUpper == out.res = "ok" => out.fee <= FeeFor(c.rate, out.est) + DustT(c.ctype)
\* "a fee no lower than the requested rate applied to ..." the estimate, and the estimate
\* covers the largest size the signed transaction can have (compressed keys)
FeeLower == out.res = "ok" => out.fee >= FeeFor(c.rate, out.est)
SizeSafe == (out.res = "ok" /\ ~HasU) =>
                /\ MaxSignedVSize(UsedCounts, c, out.change # 0) <= out.est
                /\ out.fee >= FeeFor(c.rate, MaxSignedVSize(UsedCounts, c, out.change # 0))
\* quirk Q1 never moves the estimate far from the one by the rules
QuirkBounded == out.res = "ok" =>
                /\ out.est <= WorstVSize(UsedCounts, c) + 1
                /\ WorstVSize(UsedCounts, c) <= out.est + (UsedCounts["K"] + UsedCounts["U"] + 3) \div 4
\* "reports insufficient funds only when the offered coins cannot cover the outputs plus the required fee"
\* Affordable: all offered coins together cover the outputs and the fee of their own estimate.
Affordable == Pre(NCoins) >= Target + FeeFor(c.rate, EstVSize(CountsOf(c.types, NCoins), c))
InsufficientOnlyIfStrict == out.res = "insufficient" => ~Affordable
\* TLC REFUTES the strict form on this model (family "small": one P2TR coin of 250 sat, no outputs,
\* 2500 sat/kvB: the coin pays the 250 sat its own 100 vB estimate costs, but the loop's FIRST estimate
\* assumes a P2WPKH input, 110 vB = 275 sat, and gives up).  The driver reproduces that on the code
\* (finding, signature author:insufficient:affordable).  What does hold is that this is the only gap:
InsufficientOnlyIf ==
    out.res = "insufficient" =>
        \/ ~Affordable
        \/ (iter = 1 /\ Pre(NCoins) < Target + FeeFor(c.rate, EstVSize(FirstCounts, c)))
\* the loop ends: every iteration either finishes or takes at least one more coin's worth of fee
IterBound == iter <= NCoins + 2
Terminates == <>Done

TypeOK ==
    /\ k \in 0..NCoins /\ fee >= 0
    /\ NCoins <= 40 => c.pre = PrefixSums(c.vals)
    /\ c.nout > 0 => c.target >= c.nout * c.ov
    /\ \A i \in 1..NCoins : c.vals[i] > 0

Inv == TypeOK /\ Conservation /\ NoDustChange /\ FeeUpper /\ FeeLower /\ SizeSafe /\ QuirkBounded
       /\ InsufficientOnlyIf /\ IterBound

----------------------------------------------------------------------------
(* Export: one TRACE line per finished case, with the predicted outcome *)

\* coins as runs <<type, count, first value, step>> would save little; export type string and values
TypeString(types) == types
BoundaryTag(x) == IF x.fam = "f12" THEN "p2pkh-uncompressed"
                  ELSE IF x.nout = 252 THEN "outs252+change"
                  ELSE IF x.nout \in {251, 253} THEN "outs" \o ToString(x.nout) \o "+change"
                  ELSE IF Len(x.types) >= 250 THEN "ins" \o ToString(Len(x.types))
                  ELSE x.fam

CaseExport ==
    [ fam |-> c.fam, tag |-> BoundaryTag(c), types |-> c.types, vals |-> c.vals,
      nout |-> c.nout, otype |-> c.otype, olen |-> OutLen(c.otype), ov |-> c.ov, target |-> c.target,
      ctype |-> c.ctype, clen |-> OutLen(c.ctype), rate |-> c.rate, j |-> c.j, dk |-> c.dk,
      exp |-> [ res |-> out'.res, affordable |-> Affordable, nin |-> out'.nin, fee |-> out'.fee, change |-> out'.change,
                est |-> out'.est, iters |-> iter',
                dust |-> DustT(c.ctype),
                upper |-> FeeFor(c.rate, out'.est) + DustT(c.ctype) ] ]

EmitCase == (out.res = "run" /\ out'.res # "run") => PrintT(<<"TRACE", ToJson(CaseExport)>>)
=============================================================================
