\* C07: the STRICT reading of the insufficient-funds sentence on the small model.  TLC is EXPECTED to refute it
\* (a single P2TR coin that exactly pays its own estimate; see InsufficientOnlyIfStrict in Author.tla); the
\* conformance driver reproduces the counterexample on the code (signature author:insufficient:affordable).
CONSTANTS
  Family = "small"
  NRandom = 0
INIT Init
NEXT Next
INVARIANT InsufficientOnlyIfStrict
CHECK_DEADLOCK FALSE
