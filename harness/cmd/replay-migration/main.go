// replay-migration runs every case enumerated by TLC from spec/Migration.tla
// through the real migration.Upgrade (walletdb/migration, built from /repo's
// working tree) on a real bdb database and compares what happened with the
// outcome the specification reaches: the calls the managers saw, the error
// class, the versions inside the transaction and on disk, and the data.
//
// Families (field "family" of a case):
//
//	mock1, mock2  recording managers whose version and data live in top-level
//	              buckets of one database; Upgrade runs inside one
//	              walletdb.Update; every migration writes a marker
//	real          databases made by wtxmgr.Create / waddrmgr.Create whose
//	              version key was rewritten through walletdb; upgraded by
//	              the packages' own MigrationManagers; Open before and after
package main

import (
	"bytes"
	"encoding/binary"
	"encoding/hex"
	"encoding/json"
	"errors"
	"flag"
	"fmt"
	"os"
	"path/filepath"
	"reflect"
	"sort"
	"strings"
	"time"

	"github.com/btcsuite/btcd/btcutil/hdkeychain"
	"github.com/btcsuite/btcd/chaincfg"
	"github.com/btcsuite/btcd/chaincfg/chainhash"
	"github.com/btcsuite/btcd/wire"
	"github.com/btcsuite/btcwallet/waddrmgr"
	"github.com/btcsuite/btcwallet/wallet"
	"github.com/btcsuite/btcwallet/walletdb"
	_ "github.com/btcsuite/btcwallet/walletdb/bdb"
	"github.com/btcsuite/btcwallet/walletdb/migration"
	"github.com/btcsuite/btcwallet/wtxmgr"

	"verif/harness/internal/common"
)

// ---------- case format (spec/Migration.tla, operator EmitCase) ----------

type VerE struct {
	N   int  `json:"n"`
	Nil bool `json:"nil"`
}

type Mgr struct {
	Pkg     string `json:"pkg"`
	Variant string `json:"variant"`
	Table   []VerE `json:"table"`
	Stored  int    `json:"stored"`
	Fail    int    `json:"fail"`
}

type Ev struct {
	K string `json:"k"`
	M int    `json:"m"`
	N int    `json:"n"`
}

type DiskE struct {
	Ver   int   `json:"ver"`
	Marks []int `json:"marks"`
}

type RetryExp struct {
	Events []Ev    `json:"events"`
	Err    string  `json:"err"`
	Disk   []DiskE `json:"disk"`
}

type Exp struct {
	Retry      RetryExp `json:"retry"`
	Events     []Ev     `json:"events"`
	Err        string   `json:"err"`
	Seen       []int    `json:"seen"`
	SeenFixed  bool     `json:"seenFixed"`
	Disk       []DiskE  `json:"disk"`
	Latest     []int    `json:"latest"`
	Vta        [][]int  `json:"vta"`
	OpenBefore []string `json:"openBefore"`
	OpenAfter  []string `json:"openAfter"`
}

type Case struct {
	Family string `json:"family"`
	Mgrs   []Mgr  `json:"mgrs"`
	Exp    Exp    `json:"exp"`
}

// ---------- helpers ----------

var errInjected = errors.New("verif: injected migration failure")

var (
	verKey     = []byte("ver")
	payloadKey = []byte("payload")
	nestedKey  = []byte("nested")
)

func be32(v uint32) []byte {
	var b [4]byte
	binary.BigEndian.PutUint32(b[:], v)
	return b[:]
}

func le32(v uint32) []byte {
	var b [4]byte
	binary.LittleEndian.PutUint32(b[:], v)
	return b[:]
}

// dump renders a bucket recursively: every key, value and nested bucket.
func dump(b walletdb.ReadBucket, prefix string, sb *strings.Builder) error {
	if b == nil {
		sb.WriteString(prefix + "<missing>\n")
		return nil
	}
	return b.ForEach(func(k, v []byte) error {
		if v == nil {
			sb.WriteString(prefix + hex.EncodeToString(k) + "/\n")
			return dump(b.NestedReadBucket(k), prefix+hex.EncodeToString(k)+"/", sb)
		}
		sb.WriteString(prefix + hex.EncodeToString(k) + "=" + hex.EncodeToString(v) + "\n")
		return nil
	})
}

func dumpAll(db walletdb.DB, names [][]byte) (string, error) {
	var sb strings.Builder
	err := walletdb.View(db, func(tx walletdb.ReadTx) error {
		for _, n := range names {
			sb.WriteString("[" + string(n) + "]\n")
			if err := dump(tx.ReadBucket(n), "  ", &sb); err != nil {
				return err
			}
		}
		return nil
	})
	return sb.String(), err
}

func errClass(err error) string {
	switch {
	case err == nil:
		return "none"
	case errors.Is(err, migration.ErrReversion):
		return "reversion"
	case strings.HasPrefix(err.Error(), "panic:"):
		return err.Error()
	default:
		return "migration"
	}
}

// safeUpgrade is migration.Upgrade with a panic turned into an error.
func safeUpgrade(mgrs ...migration.Manager) (err error) {
	defer func() {
		if r := recover(); r != nil {
			err = fmt.Errorf("panic: %v", r)
		}
	}()
	return migration.Upgrade(mgrs...)
}

func sortedInts(xs []int) []int {
	r := append([]int{}, xs...)
	sort.Ints(r)
	return r
}

// ---------- mock managers ----------

type recMgr struct {
	idx   int // 1-based position in the Upgrade call
	ns    walletdb.ReadWriteBucket
	table []VerE
	fail  *int
	log   *[]Ev
	vs    []migration.Version // the manager's version table: ONE slice, handed out at every call (as wtxmgr / waddrmgr do)
}

var _ migration.Manager = (*recMgr)(nil)

func (m *recMgr) Name() string                        { return fmt.Sprintf("mock-%d", m.idx) }
func (m *recMgr) Namespace() walletdb.ReadWriteBucket { return m.ns }

func (m *recMgr) CurrentVersion(ns walletdb.ReadBucket) (uint32, error) {
	if ns == nil {
		ns = m.ns
	}
	v := ns.Get(verKey)
	if len(v) != 4 {
		return 0, errors.New("verif: version key missing")
	}
	return binary.BigEndian.Uint32(v), nil
}

func (m *recMgr) SetVersion(ns walletdb.ReadWriteBucket, v uint32) error {
	if ns == nil {
		ns = m.ns
	}
	*m.log = append(*m.log, Ev{K: "set", M: m.idx, N: int(v)})
	return ns.Put(verKey, be32(v))
}

// Versions returns the manager's table in its declared order - the same slice at every call.
func (m *recMgr) Versions() []migration.Version {
	if m.vs == nil {
		m.vs = mkVersions(m.table, m.idx, m.fail, m.log)
	}
	return m.vs
}

func mkVersions(table []VerE, idx int, fail *int, log *[]Ev) []migration.Version {
	vs := make([]migration.Version, 0, len(table))
	for _, e := range table {
		e := e
		v := migration.Version{Number: uint32(e.N)}
		if !e.Nil {
			v.Migration = func(ns walletdb.ReadWriteBucket) error {
				if log != nil {
					*log = append(*log, Ev{K: "mig", M: idx, N: e.N})
				}
				// the migration's writes: a marker, a rewritten
				// value and an entry in a nested bucket
				if err := ns.Put([]byte(fmt.Sprintf("m%d", e.N)), []byte{1}); err != nil {
					return err
				}
				if err := ns.Put(payloadKey, []byte(fmt.Sprintf("rewritten by migration %d", e.N))); err != nil {
					return err
				}
				nb, err := ns.CreateBucketIfNotExists(nestedKey)
				if err != nil {
					return err
				}
				if err := nb.Put([]byte(fmt.Sprintf("n%d", e.N)), []byte{2}); err != nil {
					return err
				}
				if fail != nil && e.N == *fail {
					return errInjected
				}
				return nil
			}
		}
		vs = append(vs, v)
	}
	return vs
}

type dbh struct {
	db   walletdb.DB
	path string
}

type ctx struct {
	rep  *common.Report
	root string
	pool chan *dbh
}

type reporter func(class, what string, obs, exp interface{})

func (c *ctx) runMock(cs *Case, report reporter) (nchecks int, fatal error) {
	h := <-c.pool
	defer func() { c.pool <- h }()
	db := h.db
	n := len(cs.Mgrs)
	names := make([][]byte, n)
	for i := range cs.Mgrs {
		names[i] = []byte(fmt.Sprintf("case-m%d", i+1))
	}
	defer func() {
		_ = walletdb.Update(db, func(tx walletdb.ReadWriteTx) error {
			for _, nm := range names {
				_ = tx.DeleteTopLevelBucket(nm)
			}
			return nil
		})
	}()
	err := walletdb.Update(db, func(tx walletdb.ReadWriteTx) error {
		for i, nm := range names {
			b, err := tx.CreateTopLevelBucket(nm)
			if err != nil {
				return err
			}
			if err := b.Put(verKey, be32(uint32(cs.Mgrs[i].Stored))); err != nil {
				return err
			}
			if err := b.Put(payloadKey, []byte("original data")); err != nil {
				return err
			}
		}
		return nil
	})
	if err != nil {
		return 0, err
	}
	pre, err := dumpAll(db, names)
	if err != nil {
		return 0, err
	}

	// the exported helpers on a fresh copy of the declared table
	for i, m := range cs.Mgrs {
		func() {
			defer func() {
				if r := recover(); r != nil {
					report("panic", fmt.Sprintf("helper panicked on manager %d", i+1), fmt.Sprint(r), nil)
				}
			}()
			vta := migration.VersionsToApply(uint32(m.Stored), mkVersions(m.Table, i+1, nil, nil))
			got := []int{}
			for _, v := range vta {
				got = append(got, int(v.Number))
			}
			want := append([]int{}, cs.Exp.Vta[i]...)
			nchecks++
			if !reflect.DeepEqual(got, want) {
				report("vta", fmt.Sprintf("VersionsToApply(%d, table of manager %d)", m.Stored, i+1), got, want)
			}
			latest := migration.GetLatestVersion(mkVersions(m.Table, i+1, nil, nil))
			nchecks++
			if int(latest) != cs.Exp.Latest[i] {
				report("latest", fmt.Sprintf("GetLatestVersion(table of manager %d)", i+1), latest, cs.Exp.Latest[i])
			}
		}()
	}

	var log []Ev
	seen := make([]int, n)
	recs := make([]*recMgr, n)
	fails := make([]int, n)
	for i, m := range cs.Mgrs {
		fails[i] = m.Fail
		recs[i] = &recMgr{idx: i + 1, table: m.Table, fail: &fails[i], log: &log}
	}
	uerr := walletdb.Update(db, func(tx walletdb.ReadWriteTx) error {
		mgrs := make([]migration.Manager, n)
		for i := range cs.Mgrs {
			recs[i].ns = tx.ReadWriteBucket(names[i])
			mgrs[i] = recs[i]
		}
		e := safeUpgrade(mgrs...)
		for i := range recs {
			v, verr := recs[i].CurrentVersion(nil)
			if verr != nil {
				return verr
			}
			seen[i] = int(v)
		}
		return e
	})
	post, err := dumpAll(db, names)
	if err != nil {
		return nchecks, err
	}

	// 1. the calls, in order
	nchecks++
	wantEv := append([]Ev{}, cs.Exp.Events...)
	if log == nil {
		log = []Ev{}
	}
	if !reflect.DeepEqual(log, wantEv) {
		report("events", "sequence of migration / SetVersion calls", log, wantEv)
	}
	// 2. error class
	nchecks++
	if got := errClass(uerr); got != cs.Exp.Err {
		class := "err"
		if strings.HasPrefix(got, "panic:") {
			class = "panic"
		}
		report(class, "error returned by Upgrade through walletdb.Update", got, cs.Exp.Err)
	}
	// 3. versions inside the transaction when Upgrade returned
	nchecks++
	if !reflect.DeepEqual(seen, cs.Exp.Seen) {
		report("seen", "stored versions read inside the transaction after Upgrade returned", seen, cs.Exp.Seen)
	}
	// 4. the database afterwards
	err = walletdb.View(db, func(tx walletdb.ReadTx) error {
		for i, nm := range names {
			b := tx.ReadBucket(nm)
			if b == nil {
				return fmt.Errorf("bucket %s vanished", nm)
			}
			ver := -1
			if v := b.Get(verKey); len(v) == 4 {
				ver = int(binary.BigEndian.Uint32(v))
			}
			nchecks++
			if ver != cs.Exp.Disk[i].Ver {
				report("diskver", fmt.Sprintf("version of manager %d on disk after the transaction", i+1), ver, cs.Exp.Disk[i].Ver)
			}
			marks := []int{}
			nested := []int{}
			for k := 0; k <= 16; k++ {
				if b.Get([]byte(fmt.Sprintf("m%d", k))) != nil {
					marks = append(marks, k)
				}
				if nb := b.NestedReadBucket(nestedKey); nb != nil && nb.Get([]byte(fmt.Sprintf("n%d", k))) != nil {
					nested = append(nested, k)
				}
			}
			want := sortedInts(cs.Exp.Disk[i].Marks)
			nchecks++
			if !reflect.DeepEqual(marks, want) || !reflect.DeepEqual(nested, want) {
				report("marks", fmt.Sprintf("writes of migrations of manager %d found on disk (top-level, nested)", i+1),
					[][]int{marks, nested}, want)
			}
		}
		return nil
	})
	if err != nil {
		return nchecks, err
	}
	if cs.Exp.Err != "none" {
		nchecks++
		if pre != post {
			report("data", "database contents differ after a failed / refused upgrade", post, pre)
		}
	}

	// 5. the upgrade is called once more: same manager objects (same version tables), same database, the injected
	//    failure gone - it has to run exactly what is pending now
	for i := range fails {
		fails[i] = 0
	}
	log = nil
	rerr := walletdb.Update(db, func(tx walletdb.ReadWriteTx) error {
		mgrs := make([]migration.Manager, n)
		for i := range cs.Mgrs {
			recs[i].ns = tx.ReadWriteBucket(names[i])
			mgrs[i] = recs[i]
		}
		return safeUpgrade(mgrs...)
	})
	nchecks++
	if log == nil {
		log = []Ev{}
	}
	wantRetry := append([]Ev{}, cs.Exp.Retry.Events...)
	if !reflect.DeepEqual(log, wantRetry) {
		report("retry-events", "sequence of migration / SetVersion calls of a second upgrade over the same tables", log, wantRetry)
	}
	nchecks++
	if got := errClass(rerr); got != cs.Exp.Retry.Err {
		class := "retry-err"
		if strings.HasPrefix(got, "panic:") {
			class = "panic"
		}
		report(class, "error returned by the second upgrade", got, cs.Exp.Retry.Err)
	}
	err = walletdb.View(db, func(tx walletdb.ReadTx) error {
		for i, nm := range names {
			b := tx.ReadBucket(nm)
			if b == nil {
				return fmt.Errorf("bucket %s vanished", nm)
			}
			ver := -1
			if v := b.Get(verKey); len(v) == 4 {
				ver = int(binary.BigEndian.Uint32(v))
			}
			nchecks++
			if i < len(cs.Exp.Retry.Disk) && ver != cs.Exp.Retry.Disk[i].Ver {
				report("retry-diskver", fmt.Sprintf("version of manager %d on disk after the second upgrade", i+1), ver, cs.Exp.Retry.Disk[i].Ver)
			}
			marks := []int{}
			for k := 0; k <= 16; k++ {
				if b.Get([]byte(fmt.Sprintf("m%d", k))) != nil {
					marks = append(marks, k)
				}
			}
			nchecks++
			if i < len(cs.Exp.Retry.Disk) {
				if want := sortedInts(cs.Exp.Retry.Disk[i].Marks); !reflect.DeepEqual(marks, want) {
					report("retry-marks", fmt.Sprintf("writes of migrations of manager %d on disk after the second upgrade", i+1), marks, want)
				}
			}
		}
		return nil
	})
	if err != nil {
		return nchecks, err
	}
	return nchecks, nil
}

// ---------- real packages ----------

var (
	pubPass  = []byte("public")
	privPass = []byte("private")
	nsWtx    = []byte("wtxmgr")
	nsWaddr  = []byte("waddrmgr")
	params   = &chaincfg.MainNetParams
)

func nsOf(pkg string) []byte {
	if pkg == "wtxmgr" {
		return nsWtx
	}
	return nsWaddr
}

func realVersion(pkg string, ns walletdb.ReadBucket) int {
	if ns == nil {
		return -1
	}
	if pkg == "wtxmgr" {
		v := ns.Get([]byte("vers"))
		if len(v) != 4 {
			return -1
		}
		return int(binary.BigEndian.Uint32(v))
	}
	mb := ns.NestedReadBucket([]byte("main"))
	if mb == nil {
		return -1
	}
	v := mb.Get([]byte("mgrver"))
	if len(v) != 4 {
		return -1
	}
	return int(binary.LittleEndian.Uint32(v))
}

func putRealVersion(pkg string, ns walletdb.ReadWriteBucket, v int) error {
	if pkg == "wtxmgr" {
		return ns.Put([]byte("vers"), be32(uint32(v)))
	}
	return ns.NestedReadWriteBucket([]byte("main")).Put([]byte("mgrver"), le32(uint32(v)))
}

func realManager(pkg string, ns walletdb.ReadWriteBucket) migration.Manager {
	if pkg == "wtxmgr" {
		return wtxmgr.NewMigrationManager(ns)
	}
	return waddrmgr.NewMigrationManager(ns)
}

// openClass calls the package's Open on the namespace: "ok" or "refuse".
func openClass(pkg string, ns walletdb.ReadWriteBucket) (cls string) {
	defer func() {
		if r := recover(); r != nil {
			cls = fmt.Sprintf("panic: %v", r)
		}
	}()
	if pkg == "wtxmgr" {
		if _, err := wtxmgr.Open(ns, params); err != nil {
			return "refuse"
		}
		return "ok"
	}
	m, err := waddrmgr.Open(ns, pubPass, params)
	if err != nil {
		return "refuse"
	}
	m.Close()
	return "ok"
}

func (c *ctx) runReal(idx int, cs *Case, report reporter) (nchecks int, fatal error) {
	dir := filepath.Join(c.root, fmt.Sprintf("real%d", idx))
	if err := os.MkdirAll(dir, 0700); err != nil {
		return 0, err
	}
	defer os.RemoveAll(dir)
	db, err := walletdb.Create("bdb", filepath.Join(dir, "w.db"), true, 10*time.Second, false)
	if err != nil {
		return 0, err
	}
	defer db.Close()
	n := len(cs.Mgrs)
	names := make([][]byte, n)
	for i, m := range cs.Mgrs {
		names[i] = nsOf(m.Pkg)
	}
	genesis := params.GenesisBlock.Header.Timestamp

	// 1. the packages create their namespaces (latest schema) ...
	err = walletdb.Update(db, func(tx walletdb.ReadWriteTx) error {
		for _, m := range cs.Mgrs {
			ns, err := tx.CreateTopLevelBucket(nsOf(m.Pkg))
			if err != nil {
				return err
			}
			switch m.Pkg {
			case "wtxmgr":
				if err := wtxmgr.Create(ns); err != nil {
					return err
				}
				s, err := wtxmgr.Open(ns, params)
				if err != nil {
					return err
				}
				mtx := wire.NewMsgTx(2)
				h := chainhash.Hash{1, 2, 3}
				mtx.AddTxIn(wire.NewTxIn(wire.NewOutPoint(&h, 0), []byte{1}, nil))
				mtx.AddTxOut(wire.NewTxOut(5000, []byte{0x51}))
				rec, err := wtxmgr.NewTxRecordFromMsgTx(mtx, time.Unix(1_650_000_000, 0))
				if err != nil {
					return err
				}
				if err := s.InsertTx(ns, rec, nil); err != nil {
					return err
				}
				if err := s.AddCredit(ns, rec, nil, 0, false); err != nil {
					return err
				}
			case "waddrmgr":
				seed := bytes.Repeat([]byte{0x2a}, 32)
				root, err := hdkeychain.NewMaster(seed, params)
				if err != nil {
					return err
				}
				err = waddrmgr.Create(ns, root, pubPass, privPass, params,
					&waddrmgr.FastScryptOptions, genesis.Add(24*time.Hour))
				if err != nil {
					return err
				}
			default:
				return fmt.Errorf("unknown package %q", m.Pkg)
			}
		}
		return nil
	})
	if err != nil {
		return 0, fmt.Errorf("create: %w", err)
	}
	// ... the model's table must be the package's table ...
	err = walletdb.Update(db, func(tx walletdb.ReadWriteTx) error {
		for i, m := range cs.Mgrs {
			ns := tx.ReadWriteBucket(names[i])
			var got, want []string
			for _, v := range realManager(m.Pkg, ns).Versions() {
				got = append(got, fmt.Sprintf("%d/%v", v.Number, v.Migration == nil))
			}
			for _, e := range m.Table {
				want = append(want, fmt.Sprintf("%d/%v", e.N, e.Nil))
			}
			sort.Strings(got)
			sort.Strings(want)
			if !reflect.DeepEqual(got, want) {
				return fmt.Errorf("spec/Migration.tla lists %v as the version table of %s, the package has %v", want, m.Pkg, got)
			}
			// ... and the stored version is rewritten directly
			if err := putRealVersion(m.Pkg, ns, m.Stored); err != nil {
				return err
			}
			if m.Variant == "bday" {
				err := waddrmgr.PutBirthdayBlock(ns, waddrmgr.BlockStamp{
					Height: 0, Hash: *params.GenesisHash, Timestamp: genesis})
				if err != nil {
					return err
				}
			}
		}
		return nil
	})
	if err != nil {
		return 0, err
	}
	pre, err := dumpAll(db, names)
	if err != nil {
		return 0, err
	}

	// 2. Open before the upgrade, in a committed read-write transaction
	checkOpen := func(when string, exp []string, before string) error {
		got := make([]string, n)
		err := walletdb.Update(db, func(tx walletdb.ReadWriteTx) error {
			for i, m := range cs.Mgrs {
				got[i] = openClass(m.Pkg, tx.ReadWriteBucket(names[i]))
			}
			return nil
		})
		if err != nil {
			return err
		}
		for i, m := range cs.Mgrs {
			if exp[i] == "any" {
				continue
			}
			nchecks++
			if got[i] != exp[i] {
				report("open", fmt.Sprintf("%s.Open %s the upgrade", m.Pkg, when), got[i], exp[i])
			}
		}
		now, err := dumpAll(db, names)
		if err != nil {
			return err
		}
		nchecks++
		if now != before {
			report("data", "Open modified the database ("+when+" the upgrade)", now, before)
		}
		return nil
	}
	if err := checkOpen("before", cs.Exp.OpenBefore, pre); err != nil {
		return nchecks, err
	}

	// 2b. the same database through the real wallet.Open (which must run both upgrades in ONE
	// transaction): on a copy of the file, so that step 3 still sees the prepared state
	if n == 2 {
		cp := filepath.Join(dir, "copy.db")
		f, err := os.Create(cp)
		if err != nil {
			return nchecks, err
		}
		err = db.Copy(f)
		f.Close()
		if err != nil {
			return nchecks, err
		}
		db2, err := walletdb.Open("bdb", cp, true, 10*time.Second, false)
		if err != nil {
			return nchecks, err
		}
		var oerr error
		func() {
			defer func() {
				if p := recover(); p != nil {
					oerr = fmt.Errorf("panic: %v", p)
				}
			}()
			var w *wallet.Wallet
			w, oerr = wallet.Open(db2, pubPass, nil, params, 0)
			if w != nil && oerr == nil {
				w.Manager.Close()
			}
		}()
		post2, derr := dumpAll(db2, names)
		db2.Close()
		os.Remove(cp)
		if derr != nil {
			return nchecks, derr
		}
		nchecks++
		wantErr := cs.Exp.Err != "none"
		if (oerr != nil) != wantErr {
			report("walletopen", "wallet.Open on the prepared database", fmt.Sprint(oerr), cs.Exp.Err)
		}
		if wantErr {
			nchecks++
			if post2 != pre {
				report("data", "wallet.Open refused / failed but the database was modified", post2, pre)
			}
		}
	}

	// 3. the upgrade, all managers in one transaction (wallet.OpenWithRetry)
	seen := make([]int, n)
	uerr := walletdb.Update(db, func(tx walletdb.ReadWriteTx) error {
		mgrs := make([]migration.Manager, n)
		for i, m := range cs.Mgrs {
			mgrs[i] = realManager(m.Pkg, tx.ReadWriteBucket(names[i]))
		}
		e := safeUpgrade(mgrs...)
		for i, m := range cs.Mgrs {
			seen[i] = realVersion(m.Pkg, tx.ReadBucket(names[i]))
		}
		return e
	})
	post, err := dumpAll(db, names)
	if err != nil {
		return nchecks, err
	}
	nchecks++
	if got := errClass(uerr); got != cs.Exp.Err {
		class := "err"
		if strings.HasPrefix(got, "panic:") {
			class = "panic"
		}
		detail := ""
		if uerr != nil {
			detail = " (" + uerr.Error() + ")"
		}
		report(class, "error returned by Upgrade through walletdb.Update"+detail, got, cs.Exp.Err)
	}
	if cs.Exp.SeenFixed {
		nchecks++
	}
	if cs.Exp.SeenFixed && !reflect.DeepEqual(seen, cs.Exp.Seen) {
		report("seen", "stored versions read inside the transaction after Upgrade returned", seen, cs.Exp.Seen)
	}
	err = walletdb.View(db, func(tx walletdb.ReadTx) error {
		for i, m := range cs.Mgrs {
			nchecks++
			if got := realVersion(m.Pkg, tx.ReadBucket(names[i])); got != cs.Exp.Disk[i].Ver {
				report("diskver", fmt.Sprintf("version of %s on disk after the transaction", m.Pkg), got, cs.Exp.Disk[i].Ver)
			}
		}
		return nil
	})
	if err != nil {
		return nchecks, err
	}
	if cs.Exp.Err != "none" {
		nchecks++
		if pre != post {
			report("data", "database contents differ after a failed / refused upgrade", post, pre)
		}
	}
	// 4. Open afterwards
	if err := checkOpen("after", cs.Exp.OpenAfter, post); err != nil {
		return nchecks, err
	}
	return nchecks, nil
}

// ---------- main ----------

func main() {
	in := flag.String("in", "", "ndjson cases")
	out := flag.String("out", "", "report file")
	workers := flag.Int("workers", 16, "parallel cases")
	flag.Parse()

	root, err := common.ScratchRoot("migration")
	if err != nil {
		fmt.Fprintln(os.Stderr, err)
		os.Exit(2)
	}
	defer os.RemoveAll(root)

	c := &ctx{rep: common.NewReport(), root: root, pool: make(chan *dbh, *workers)}
	for i := 0; i < *workers; i++ {
		p := filepath.Join(root, fmt.Sprintf("pool%d.db", i))
		db, err := walletdb.Create("bdb", p, true, 10*time.Second, false)
		if err != nil {
			fmt.Fprintln(os.Stderr, err)
			os.RemoveAll(root)
			os.Exit(2)
		}
		c.pool <- &dbh{db: db, path: p}
	}
	rep := c.rep
	rep.Rule = "cases are enumerated exhaustively by TLC (every table x order x nil pattern x stored version x failing migration); " +
		"non-trivial = distinct cases in which at least one migration function or SetVersion is expected to be called, " +
		"or the upgrade is expected to fail or to be refused (everything but the up-to-date no-op)"

	err = common.ForEachLine(*in, *workers, func(idx int, line []byte) {
		var cs Case
		if err := json.Unmarshal(line, &cs); err != nil {
			rep.AddError("case %d: %v", idx, err)
			return
		}
		n := len(cs.Mgrs)
		if n == 0 || len(cs.Exp.Seen) != n || len(cs.Exp.Disk) != n || len(cs.Exp.Latest) != n ||
			len(cs.Exp.Vta) != n || len(cs.Exp.OpenBefore) != n || len(cs.Exp.OpenAfter) != n {
			rep.AddError("case %d: malformed expectation", idx)
			return
		}
		report := func(class, what string, obs, exp interface{}) {
			rep.AddMismatch(common.Mismatch{Prop: "C19", Sig: fmt.Sprintf("migration:%s:%s", class, cs.Family),
				Trace: idx, Step: 0, What: what, Observed: obs, Expected: exp, Behav: json.RawMessage(line)})
		}
		var nchecks int
		var ferr error
		func() {
			defer func() {
				if r := recover(); r != nil {
					report("panic", "the case panicked outside Upgrade", fmt.Sprint(r), nil)
				}
			}()
			if cs.Family == "real" {
				nchecks, ferr = c.runReal(idx, &cs, report)
			} else {
				nchecks, ferr = c.runMock(&cs, report)
			}
		}()
		if ferr != nil {
			rep.AddError("case %d (%s): harness: %v", idx, cs.Family, ferr)
			return
		}
		rep.Count(1, len(cs.Exp.Events), nchecks)
		rep.Inc("cases_"+cs.Family, 1)
		rep.Inc("expect_"+cs.Exp.Err, 1)
		if len(cs.Exp.Events) > 0 || cs.Exp.Err != "none" {
			k, _ := json.Marshal(cs.Mgrs)
			rep.Nontriv(cs.Family + string(k))
		}
		if cs.Family == "real" || (len(cs.Exp.Events) >= 3 && idx%97 == 0) {
			rep.Sample(json.RawMessage(line))
		}
	})
	if err != nil {
		rep.AddError("input: %v", err)
	}
	for len(c.pool) > 0 {
		h := <-c.pool
		h.db.Close()
	}
	if err := rep.Write(*out); err != nil {
		fmt.Fprintln(os.Stderr, err)
		os.Exit(2)
	}
}
