// replay-kahn realises every transaction set enumerated by TLC from
// spec/KahnSort.tla as real wire.MsgTx values and checks, on the real code
// built from /repo's working tree, that
//
//   - wtxmgr.DependencySort (called -reps times per set, on maps filled in a
//     random order; Go randomises the iteration order of every range loop) and
//   - Store.UnminedTxs (after the set was inserted as unmined transactions
//     in a random order into a fresh wtxmgr.Store, -store-orders different
//     insertion orders, -store-reps calls each)
//
// return one of the orders the specification admits for that set
// (ValidOrders, exported by TLC): every transaction exactly once, each after
// every in-set transaction whose output it spends.
package main

import (
	"crypto/sha256"
	"encoding/json"
	"flag"
	"fmt"
	"math/rand"
	"os"
	"path/filepath"
	"strings"
	"time"

	"github.com/btcsuite/btcd/chaincfg"
	"github.com/btcsuite/btcd/chaincfg/chainhash"
	"github.com/btcsuite/btcd/wire"
	"github.com/btcsuite/btcwallet/walletdb"
	_ "github.com/btcsuite/btcwallet/walletdb/bdb"
	"github.com/btcsuite/btcwallet/wtxmgr"

	"verif/harness/internal/common"
)

// Case is one line printed by EmitCase of spec/KahnSort.tla.
type Case struct {
	N      int        `json:"n"`
	Fm     int        `json:"fm"`
	Ins    [][][2]int `json:"ins"` // per transaction: outpoints <<parent, output>>, parent 0 = not in the set
	NValid int        `json:"nvalid"`
	Valid  [][]int    `json:"valid"`
}

func foreignHash(k int) chainhash.Hash {
	return sha256.Sum256([]byte(fmt.Sprintf("verif-foreign-parent-%d", k)))
}

func pkScript(t, i int) []byte {
	h := sha256.Sum256([]byte(fmt.Sprintf("verif-kahn-script-%d-%d", t, i)))
	s := []byte{0x76, 0xa9, 0x14}
	s = append(s, h[:20]...)
	return append(s, 0x88, 0xac)
}

// buildTxs makes transaction j spend exactly the outpoints ins[j]; every
// transaction has two outputs.
func buildTxs(c *Case) ([]*wire.MsgTx, []chainhash.Hash) {
	txs := make([]*wire.MsgTx, c.N+1)
	hashes := make([]chainhash.Hash, c.N+1)
	for t := 1; t <= c.N; t++ {
		tx := wire.NewMsgTx(2)
		for _, op := range c.Ins[t-1] {
			var h chainhash.Hash
			if op[0] == 0 {
				h = foreignHash(op[1])
			} else {
				h = hashes[op[0]]
			}
			tx.AddTxIn(wire.NewTxIn(wire.NewOutPoint(&h, uint32(op[1])), []byte{byte(t)}, nil))
		}
		for i := 0; i < 2; i++ {
			tx.AddTxOut(wire.NewTxOut(int64(1000*(2*t+i)), pkScript(t, i)))
		}
		txs[t] = tx
		hashes[t] = tx.TxHash()
	}
	return txs, hashes
}

type verdict struct {
	order []int // transaction numbers in the order returned (0 = not a member of the set)
	key   string
	once  bool // every member exactly once, nothing else
	edges bool // every transaction after all its in-set parents
}

func judge(c *Case, byPtr map[*wire.MsgTx]int, byHash map[chainhash.Hash]int, out []*wire.MsgTx) verdict {
	v := verdict{order: make([]int, 0, len(out))}
	pos := make([]int, c.N+1)
	for i := range pos {
		pos[i] = -1
	}
	v.once = len(out) == c.N
	for i, tx := range out {
		// DependencySort hands back the pointers it was given; lists read from
		// a store hold fresh values, identified by their hash
		t := 0
		if tx != nil {
			if k, ok := byPtr[tx]; ok {
				t = k
			} else {
				t = byHash[tx.TxHash()]
			}
		}
		v.order = append(v.order, t)
		if t == 0 || pos[t] >= 0 {
			v.once = false
			continue
		}
		pos[t] = i
	}
	v.key = fmt.Sprint(v.order)
	if !v.once {
		return v
	}
	v.edges = true
	for t := 1; t <= c.N; t++ {
		for _, op := range c.Ins[t-1] {
			if op[0] != 0 && pos[op[0]] > pos[t] {
				v.edges = false
			}
		}
	}
	return v
}

func main() {
	in := flag.String("in", "", "ndjson cases")
	out := flag.String("out", "", "report file")
	workers := flag.Int("workers", 16, "parallel cases")
	seed := flag.Int64("seed", 1, "seed of the insertion orders")
	reps := flag.Int("reps", 50, "DependencySort calls per set")
	storeOrders := flag.Int("store-orders", 2, "insertion orders into a Store per set")
	storeReps := flag.Int("store-reps", 10, "UnminedTxs calls per insertion order")
	flag.Parse()

	root, err := common.ScratchRoot("kahn")
	if err != nil {
		fmt.Fprintln(os.Stderr, err)
		os.Exit(2)
	}
	defer os.RemoveAll(root)

	pool := make(chan walletdb.DB, *workers)
	for i := 0; i < *workers && *storeOrders > 0; i++ {
		db, err := walletdb.Create("bdb", filepath.Join(root, fmt.Sprintf("pool%d.db", i)), true, 10*time.Second, false)
		if err != nil {
			fmt.Fprintln(os.Stderr, err)
			os.RemoveAll(root)
			os.Exit(2)
		}
		pool <- db
	}

	rep := common.NewReport()
	rep.Rule = "transaction sets are enumerated exhaustively by TLC (every DAG on 0..MaxN nodes, 0..2 edges per pair, two foreign-input " +
		"placements); non-trivial = distinct sets with at least one in-set spend edge (the Kahn loop runs instead of the no-edges shortcut)"

	err = common.ForEachLine(*in, *workers, func(idx int, line []byte) {
		var c Case
		if err := json.Unmarshal(line, &c); err != nil {
			rep.AddError("case %d: %v", idx, err)
			return
		}
		if len(c.Ins) != c.N || len(c.Valid) != c.NValid || c.NValid == 0 {
			rep.AddError("case %d: malformed case", idx)
			return
		}
		valid := map[string]bool{}
		for _, o := range c.Valid {
			if o == nil {
				o = []int{}
			}
			valid[fmt.Sprint(o)] = true
		}
		txs, hashes := buildTxs(&c)
		byHash := map[chainhash.Hash]int{}
		byPtr := map[*wire.MsgTx]int{}
		for t := 1; t <= c.N; t++ {
			byHash[hashes[t]] = t
			byPtr[txs[t]] = t
		}
		if len(byHash) != c.N {
			rep.AddError("case %d: harness built colliding transactions", idx)
			return
		}
		rng := rand.New(rand.NewSource(*seed*1_000_003 + int64(idx)))
		nchecks, ncalls := 0, 0
		seen := map[string]bool{}
		report := func(api, class, what string, obs, exp interface{}) {
			rep.AddMismatch(common.Mismatch{Prop: "C14", Sig: fmt.Sprintf("kahn:%s:%s", class, api),
				Trace: idx, Step: ncalls, What: what, Observed: obs, Expected: exp, Behav: json.RawMessage(line)})
		}
		check := func(api string, got []*wire.MsgTx) {
			v := judge(&c, byPtr, byHash, got)
			nchecks++
			inValid := valid[v.key]
			if inValid != (v.once && v.edges) {
				rep.AddError("case %d: the exported ValidOrders and the edge check disagree on %s", idx, v.key)
				return
			}
			switch {
			case !v.once:
				report(api, "once", "result is not a list of every transaction of the set exactly once (0 = not in the set)", v.order, c.Valid)
			case !v.edges:
				report(api, "order", "a transaction precedes an in-set transaction whose output it spends", v.order, c.Valid)
			default:
				seen[v.key] = true
			}
		}

		// (a) DependencySort directly
		perm := make([]int, c.N)
		for r := 0; r < *reps; r++ {
			for i := range perm {
				perm[i] = i + 1
			}
			rng.Shuffle(len(perm), func(i, j int) { perm[i], perm[j] = perm[j], perm[i] })
			set := make(map[chainhash.Hash]*wire.MsgTx, c.N)
			for _, t := range perm {
				set[hashes[t]] = txs[t]
			}
			var got []*wire.MsgTx
			var pan interface{}
			func() {
				defer func() { pan = recover() }()
				got = wtxmgr.DependencySort(set)
			}()
			ncalls++
			if pan != nil {
				nchecks++
				report("DependencySort", "panic", "DependencySort panicked", fmt.Sprint(pan), c.Valid)
				break
			}
			check("DependencySort", got)
		}

		// (b) through a real store
		if *storeOrders > 0 {
			// a database of the pool; the namespaces of this set are
			// dropped again when it is done
			db := <-pool
			var used [][]byte
			defer func() {
				_ = walletdb.Update(db, func(tx walletdb.ReadWriteTx) error {
					for _, k := range used {
						_ = tx.DeleteTopLevelBucket(k)
					}
					return nil
				})
				pool <- db
			}()
			for o := 0; o < *storeOrders; o++ {
				nsKey := []byte(fmt.Sprintf("wtxmgr-%d-%d", idx, o))
				used = append(used, nsKey)
				for i := range perm {
					perm[i] = i + 1
				}
				rng.Shuffle(len(perm), func(i, j int) { perm[i], perm[j] = perm[j], perm[i] })
				var store *wtxmgr.Store
				var pan interface{}
				err := walletdb.Update(db, func(tx walletdb.ReadWriteTx) (err error) {
					defer func() {
						if pan = recover(); pan != nil {
							err = fmt.Errorf("panic: %v", pan)
						}
					}()
					ns, err := tx.CreateTopLevelBucket(nsKey)
					if err != nil {
						return err
					}
					if err := wtxmgr.Create(ns); err != nil {
						return err
					}
					store, err = wtxmgr.Open(ns, &chaincfg.RegressionNetParams)
					if err != nil {
						return err
					}
					for pos, t := range perm {
						// the time a transaction was first seen is unrelated to the spend graph (block header
						// times, reorgs): the received time follows the random insertion order, so children are
						// as often older than their parents as younger
						rec, err := wtxmgr.NewTxRecordFromMsgTx(txs[t], time.Unix(int64(1_650_000_000+600*pos), 0))
						if err != nil {
							return err
						}
						if err := store.InsertTx(ns, rec, nil); err != nil {
							return fmt.Errorf("InsertTx(t%d, unmined): %w", t, err)
						}
					}
					return nil
				})
				if err != nil {
					nchecks++
					report("UnminedTxs", "call", fmt.Sprintf("inserting the set as unmined transactions in order %v failed", perm), err.Error(), "success")
					continue
				}
				for r := 0; r < *storeReps; r++ {
					var got []*wire.MsgTx
					err := walletdb.View(db, func(tx walletdb.ReadTx) (err error) {
						defer func() {
							if p := recover(); p != nil {
								err = fmt.Errorf("panic: %v", p)
							}
						}()
						got, err = store.UnminedTxs(tx.ReadBucket(nsKey))
						return err
					})
					ncalls++
					if err != nil {
						nchecks++
						class := "call"
						if strings.HasPrefix(err.Error(), "panic:") {
							class = "panic"
						}
						report("UnminedTxs", class, "UnminedTxs failed", err.Error(), c.Valid)
						break
					}
					check("UnminedTxs", got)
				}
			}
		}

		rep.Count(1, ncalls, nchecks)
		rep.Inc("valid_orders_of_all_sets", c.NValid)
		rep.Inc("valid_orders_observed", len(seen))
		edges := 0
		for _, ins := range c.Ins {
			for _, op := range ins {
				if op[0] != 0 {
					edges++
				}
			}
		}
		if edges > 0 {
			rep.Nontriv(fmt.Sprintf("%d|%v", c.Fm, c.Ins))
			rep.Inc("sets_with_edges", 1)
		}
		if c.NValid > 1 && edges >= 3 {
			rep.Sample(json.RawMessage(line))
		}
	})
	if err != nil {
		rep.AddError("input: %v", err)
	}
	for len(pool) > 0 {
		(<-pool).Close()
	}
	if err := rep.Write(*out); err != nil {
		fmt.Fprintln(os.Stderr, err)
		os.Exit(2)
	}
}
