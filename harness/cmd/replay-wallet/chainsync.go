package main

import (
	"encoding/json"
	"fmt"
	"sort"

	"github.com/btcsuite/btcd/chaincfg/chainhash"
	"github.com/btcsuite/btcd/txscript"
	"github.com/btcsuite/btcd/wire"
	"github.com/btcsuite/btcwallet/waddrmgr"
	"github.com/btcsuite/btcwallet/wallet"
	"github.com/btcsuite/btcwallet/walletdb"
	"github.com/btcsuite/btcwallet/wtxmgr"

	"verif/harness/internal/common"
	"verif/harness/internal/mockchain"
)

// ---- ChainSync.tla behaviours (C15) ----

type csStep struct {
	Op  string          `json:"op"`
	A   json.RawMessage `json:"a"`
	Exp json.RawMessage `json:"exp"`
}

type csArgs struct {
	T   int   `json:"t"`
	Txs []int `json:"txs"`
	D   int   `json:"d"`
	N   int   `json:"n"`
	Pos int   `json:"pos"`
	Dup int   `json:"dup"`
}

type csObs struct {
	Running bool  `json:"running"`
	Tip     int   `json:"tip"`
	Chain   []int `json:"chain"`
	WChain  []int `json:"wchain"`
	WConf   []int `json:"wconf"`
	Conf    []int `json:"conf"`
	Sent    []int `json:"sent"`
}

type csTrace struct {
	Steps []csStep        `json:"steps"`
	Exp   json.RawMessage `json:"exp"`
}

var addrmgrNs = []byte("waddrmgr")
var txmgrNs = []byte("wtxmgr")

type csWorld struct {
	e        *env
	txs      map[int]*wire.MsgTx
	blockOf  map[int]*mockchain.Block // model block id -> backend block
	ids      []int                    // model ids of the blocks above the birthday block, by position
	nextID   int
	lastDisc *mockchain.Block
	lastRem  []*mockchain.Block // blocks removed by the latest disconnection, top first
}

func replayChainSync(idx int, line []byte, prop string, seed int, root string, rep *common.Report) {
	var tr csTrace
	if err := json.Unmarshal(line, &tr); err != nil {
		rep.AddError("trace %d: %v", idx, err)
		return
	}
	e, err := newEnv(root, idx, seed, testParams(2), 0, true)
	if err != nil {
		rep.AddError("trace %d: setup: %v", idx, err)
		return
	}
	defer e.close()
	w := &csWorld{e: e, txs: map[int]*wire.MsgTx{}, blockOf: map[int]*mockchain.Block{}, nextID: 2}
	report := func(step int, class, what string, obs, exp interface{}) {
		last := "init"
		if step >= 0 && step < len(tr.Steps) {
			last = tr.Steps[step].Op
		}
		// C02 (wallet-level pass) owns the status of transactions across reorgs; tip and hashes are C15's
		if prop == "C02" && class != "tx" {
			return
		}
		// C13 (wallet-level pass) owns the listing by range; C15 and C02 do not report it
		if (prop == "C13") != (class == "history") {
			return
		}
		sig := fmt.Sprintf("chainsync:%s:%s", class, last)
		for i := 0; i <= step && i < len(tr.Steps); i++ {
			if tr.Steps[i].Op == "StartDuringReorg" && last != "StartDuringReorg" {
				sig += "|ctx=after:StartDuringReorg" // open finding F7 is identified by this history
				break
			}
		}
		m := common.Mismatch{Prop: prop, Sig: sig, Trace: idx, Step: step,
			What: what, Observed: obs, Expected: exp}
		cut := tr
		if step >= 0 && step+1 < len(tr.Steps) {
			cut.Steps = tr.Steps[:step+1]
		}
		m.Behav, _ = json.Marshal(cut)
		rep.AddMismatch(m)
	}
	if err := e.start(); err != nil {
		rep.AddError("trace %d: start: %v", idx, err)
		return
	}
	if err := e.settle(); err != nil {
		rep.AddError("trace %d: initial sync: %v", idx, err)
		return
	}
	// the harness relies on the birthday block being the block below the initial tip
	bb, err := e.w.BirthdayBlock()
	if err != nil || bb.Height != birthdayHeight {
		rep.AddError("trace %d: birthday block is %v (%v), the harness expects height %d", idx, bb, err, birthdayHeight)
		return
	}
	w.blockOf[1] = e.chain.At(initialTip)
	w.ids = []int{1}
	// one receiving address per transaction, issued (and registered with the backend) up front
	ntx := 0
	if len(tr.Steps) > 0 {
		var o csObs
		if len(tr.Exp) > 0 && tr.Exp[0] == '{' {
			json.Unmarshal(tr.Exp, &o)
		} else {
			json.Unmarshal(tr.Steps[len(tr.Steps)-1].Exp, &o)
		}
		ntx = len(o.WConf)
	}
	for t := 1; t <= ntx; t++ {
		addr, err := e.w.NewAddress(0, waddrmgr.KeyScopeBIP0084)
		if err != nil {
			rep.AddError("trace %d: NewAddress: %v", idx, err)
			return
		}
		script, _ := txscript.PayToAddrScript(addr)
		w.txs[t] = payTo(fmt.Sprintf("cs-%d-%d", idx, seed), t, script, int64(100000*t))
	}
	nchecks := 0
	for si := range tr.Steps {
		st := &tr.Steps[si]
		var a csArgs
		if len(st.A) > 0 && st.A[0] == '{' {
			json.Unmarshal(st.A, &a)
		}
		if err := w.apply(st.Op, &a); err != nil {
			rep.AddError("trace %d step %d (%s): %v", idx, si, st.Op, err)
			return
		}
		if err := e.settle(); err != nil {
			report(si, "liveness", "wallet stopped processing notifications", err.Error(), "drained")
			return
		}
		var exp *csObs
		var derr error
		if len(st.Exp) > 0 && st.Exp[0] == '{' {
			exp = new(csObs)
			derr = json.Unmarshal(st.Exp, exp)
		} else if si == len(tr.Steps)-1 && len(tr.Exp) > 0 && tr.Exp[0] == '{' {
			exp = new(csObs)
			derr = json.Unmarshal(tr.Exp, exp)
		}
		if derr != nil {
			rep.AddError("trace %d step %d: expectation does not decode: %v", idx, si, derr)
			return
		}
		if exp == nil || !exp.Running {
			continue
		}
		if fmt.Sprint(exp.Chain) != fmt.Sprint(w.ids) {
			rep.AddError("trace %d step %d: harness chain %v differs from the model's %v", idx, si, w.ids, exp.Chain)
			return
		}
		n, diffs := w.check(exp)
		nchecks += n
		for _, d := range diffs {
			if d[0].(string) == "harness" {
				rep.AddError("trace %d step %d: %v", idx, si, d[1])
				continue
			}
			report(si, d[0].(string), d[1].(string), d[2], d[3])
		}
		rep.Nontriv(fmt.Sprintf("%v|%v|%s", exp.Chain, exp.WConf, st.Op))
	}
	rep.Count(1, len(tr.Steps), nchecks)
	if len(tr.Steps) >= 4 {
		var ss []string
		for _, st := range tr.Steps {
			ss = append(ss, st.Op+string(st.A))
		}
		rep.Sample(ss)
	}
}

func (w *csWorld) txSet(ids []int) []*wire.MsgTx {
	sort.Ints(ids)
	var r []*wire.MsgTx
	for _, t := range ids {
		r = append(r, w.txs[t])
	}
	return r
}

func (w *csWorld) extend(txs []int) {
	b := w.e.chain.Extend(w.txSet(txs))
	w.blockOf[w.nextID] = b
	w.ids = append(w.ids, w.nextID)
	w.nextID++
}

func (w *csWorld) apply(op string, a *csArgs) error {
	e := w.e
	switch op {
	case "Receive":
		e.chain.AcceptTx(w.txs[a.T])
	case "Extend":
		w.extend(a.Txs)
	case "Reorg":
		removed := e.chain.Disconnect(a.D)
		w.lastDisc = removed[len(removed)-1]
		w.lastRem = removed
		w.ids = w.ids[:len(w.ids)-a.D]
		if a.Dup > 0 && a.Dup <= len(removed) {
			// the notification for an already disconnected block is repeated before the new branch arrives
			e.chain.SendStaleDisconnect(removed[a.Dup-1])
		}
		for i := 0; i < a.N; i++ {
			if i == 0 {
				w.extend(a.Txs)
			} else {
				w.extend(nil)
			}
		}
	case "Shrink":
		removed := e.chain.Disconnect(a.D)
		w.lastDisc = removed[len(removed)-1]
		w.lastRem = removed
		w.ids = w.ids[:len(w.ids)-a.D]
	case "Flap":
		removed := e.chain.Disconnect(a.D)
		w.lastDisc = nil
		w.lastRem = nil
		back := make([]*mockchain.Block, 0, len(removed))
		for i := len(removed) - 1; i >= 0; i-- {
			back = append(back, removed[i])
		}
		e.chain.Reconnect(back)
	case "DupDisconnect":
		want := int32(initialTip + a.Pos - 1)
		for _, b := range w.lastRem {
			if b.Height == want {
				e.chain.SendStaleDisconnect(b)
			}
		}
	case "StaleDisconnect":
		h := int32(initialTip + a.Pos - 1)
		var fake chainhash.Hash
		fake[0], fake[1], fake[31] = 0xde, 0xad, byte(a.Pos)
		e.chain.SendStaleDisconnect(&mockchain.Block{Hash: fake, Height: h, Time: chainT0})
	case "StartDuringReorg":
		e.chain.DuringRescan = func() {
			removed := e.chain.Disconnect(a.D)
			w.lastDisc = removed[len(removed)-1]
			w.lastRem = removed
			w.ids = w.ids[:len(w.ids)-a.D]
			for i := 0; i < a.N; i++ {
				if i == 0 {
					w.extend(a.Txs)
				} else {
					w.extend(nil)
				}
			}
		}
		if err := e.start(); err != nil {
			return err
		}
	case "Reconnect":
		e.chain.Attach() // ClientConnected again
	case "ReconnectDuringReorg":
		e.chain.DuringRescan = func() {
			removed := e.chain.Disconnect(a.D)
			w.lastDisc = removed[len(removed)-1]
			w.lastRem = removed
			w.ids = w.ids[:len(w.ids)-a.D]
			for i := 0; i < a.N; i++ {
				if i == 0 {
					w.extend(a.Txs)
				} else {
					w.extend(nil)
				}
			}
		}
		e.chain.Attach()
	case "Stop":
		e.stop()
	case "Start":
		if err := e.start(); err != nil {
			return err
		}
	default:
		return fmt.Errorf("unknown op %q", op)
	}
	return nil
}

// check compares the wallet's view with the expectation at a quiescent point.
func (w *csWorld) check(exp *csObs) (int, [][4]interface{}) {
	var diffs [][4]interface{}
	add := func(class, what string, obs, e interface{}) {
		diffs = append(diffs, [4]interface{}{class, what, obs, e})
	}
	n := 0
	e := w.e
	tip := e.chain.Tip()
	st := e.w.Manager.SyncedTo()
	n++
	if st.Height != tip.Height || st.Hash != tip.Hash {
		add("tip", "synced-to block", fmt.Sprintf("%d %v", st.Height, st.Hash), fmt.Sprintf("%d %v", tip.Height, tip.Hash))
	}
	err := walletdb.View(e.db, func(tx walletdb.ReadTx) error {
		ans := tx.ReadBucket(addrmgrNs)
		tns := tx.ReadBucket(txmgrNs)
		// every remembered hash from the birthday block up to the tip
		for h := int32(birthdayHeight); h <= tip.Height; h++ {
			want := e.chain.At(h).Hash
			got, err := e.w.Manager.BlockHash(ans, h)
			n++
			if err != nil {
				add("hash", fmt.Sprintf("BlockHash(%d)", h), err.Error(), want.String())
			} else if *got != want {
				add("hash", fmt.Sprintf("BlockHash(%d)", h), got.String(), want.String())
			}
		}
		for t, wc := range exp.WConf {
			tx := w.txs[t+1]
			h := tx.TxHash()
			d, err := e.w.TxStore.TxDetails(tns, &h)
			n++
			if err != nil {
				add("tx", fmt.Sprintf("TxDetails(t%d)", t+1), err.Error(), wc)
				continue
			}
			got := "unknown"
			if d != nil {
				got = describeBlock(d, e)
			}
			want := "unknown"
			switch {
			case wc == 0:
				want = "unconfirmed"
			case wc > len(exp.Chain):
				add("harness", fmt.Sprintf("expectation places t%d at position %d of a chain of %d blocks", t+1, wc, len(exp.Chain)), wc, len(exp.Chain))
				continue
			case wc > 0:
				b := w.blockOf[exp.Chain[wc-1]]
				want = fmt.Sprintf("confirmed in block %d %v (on the best chain)", b.Height, b.Hash)
			}
			if got != want {
				add("tx", fmt.Sprintf("status of transaction t%d", t+1), got, want)
			}
		}
		return nil
	})
	if err != nil {
		add("query", "view", err.Error(), nil)
	}
	// C13 (wallet-level pass): the listing by range, in both directions, shows every transaction the model
	// knows exactly once - under the best-chain block that confirms it, or as unconfirmed - and no other
	for dir, rng := range [][2]int32{{0, -1}, {-1, 0}} {
		name := []string{"GetTransactions(0..unmined)", "GetTransactions(unmined..0)"}[dir]
		res, err := e.w.GetTransactions(wallet.NewBlockIdentifierFromHeight(rng[0]), wallet.NewBlockIdentifierFromHeight(rng[1]), "", nil)
		n++
		if err != nil {
			add("history", name, err.Error(), "ok")
			continue
		}
		where := map[chainhash.Hash][]string{}
		last := int32(-2)
		for bi := range res.MinedTransactions {
			b := &res.MinedTransactions[bi]
			if bi > 0 && ((dir == 0 && b.Height <= last) || (dir == 1 && b.Height >= last)) {
				add("history", name+": block order", fmt.Sprint(last, " then ", b.Height), "monotone")
			}
			last = b.Height
			on := "NOT on the best chain"
			if cb := e.chain.At(b.Height); cb != nil && b.Hash != nil && cb.Hash == *b.Hash {
				on = "on the best chain"
			}
			for ti := range b.Transactions {
				h := *b.Transactions[ti].Hash
				where[h] = append(where[h], fmt.Sprintf("confirmed in block %d %v (%s)", b.Height, b.Hash, on))
			}
		}
		for ti := range res.UnminedTransactions {
			h := *res.UnminedTransactions[ti].Hash
			where[h] = append(where[h], "unconfirmed")
		}
		for t, wc := range exp.WConf {
			tx := w.txs[t+1]
			if tx == nil {
				continue
			}
			want := "[]"
			switch {
			case wc == 0:
				want = "[unconfirmed]"
			case wc > len(exp.Chain):
				continue
			case wc > 0:
				b := w.blockOf[exp.Chain[wc-1]]
				want = fmt.Sprintf("[confirmed in block %d %v (on the best chain)]", b.Height, b.Hash)
			}
			n++
			if got := fmt.Sprint(where[tx.TxHash()]); got != want {
				add("history", fmt.Sprintf("%s: entries for transaction t%d", name, t+1), got, want)
			}
		}
	}
	return n, diffs
}

func describeBlock(d *wtxmgr.TxDetails, e *env) string {
	if d.Block.Height < 0 {
		return "unconfirmed"
	}
	on := "NOT on the best chain"
	if b := e.chain.At(d.Block.Height); b != nil && b.Hash == d.Block.Hash {
		on = "on the best chain"
	}
	return fmt.Sprintf("confirmed in block %d %v (%s)", d.Block.Height, d.Block.Hash, on)
}
