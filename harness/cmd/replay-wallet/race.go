package main

import (
	"encoding/json"
	"fmt"
	"os"
	"path/filepath"
	"sort"
	"sync"
	"time"

	"github.com/btcsuite/btcd/btcec/v2"
	"github.com/btcsuite/btcd/btcutil"
	"github.com/btcsuite/btcd/btcutil/hdkeychain"
	"github.com/btcsuite/btcd/btcutil/psbt"
	"github.com/btcsuite/btcd/txscript"
	"github.com/btcsuite/btcd/wire"
	"github.com/btcsuite/btcwallet/waddrmgr"
	"github.com/btcsuite/btcwallet/wallet"
	"github.com/btcsuite/btcwallet/walletdb"

	"verif/harness/internal/common"
)

// ---- C09: concurrent address issuance on the real wallet ----
//
// (i)  gate scenarios: caller A is parked at the start of nextAddresses' commit
//      callback (database writer lock released, in-memory index not yet
//      advanced, Wallet.newAddrMtx still held by a correct caller); caller B
//      is started; it either finishes inside the window (only possible if a
//      mutex is missing at A's or B's site) or is still blocked after a grace
//      period; then A is released.
// (ii) free-running stress with many goroutines over all sites.
// Verdicts are on returned addresses, indices and database/memory agreement;
// the recorded gate/done events are also written out for AddrIssueTrace.tla.

type raceEvent struct {
	Ev  string `json:"ev"`
	C   int    `json:"c"`
	Idx int    `json:"idx"`
}

type site struct {
	name   string
	branch uint32
	// call issues (at most) one address on the account and returns it (nil if none was needed)
	call func(e *env, acct uint32, r *raceRun) (btcutil.Address, error)
}

type raceRun struct {
	e       *env
	scope   waddrmgr.KeyScope
	foreign []byte
	utxos   map[uint32][]wire.OutPoint // account -> its confirmed coins
	utxoOut map[wire.OutPoint]*wire.TxOut
	nonce   int
}

// raceHung is set when wallet calls block each other for good; main then writes the report and
// exits without trying to stop the wallet.
var raceHung bool

var gateMu sync.Mutex
var gateFn func(name string)

func init() {
	waddrmgr.VerifPoint = func(name string) {
		gateMu.Lock()
		f := gateFn
		gateMu.Unlock()
		if f != nil {
			f(name)
		}
	}
}

func setGate(f func(string)) {
	gateMu.Lock()
	gateFn = f
	gateMu.Unlock()
}

func changeAddrOf(tx *wire.MsgTx, idx int, e *env) (btcutil.Address, error) {
	if idx < 0 || idx >= len(tx.TxOut) {
		return nil, nil
	}
	_, addrs, _, err := txscript.ExtractPkScriptAddrs(tx.TxOut[idx].PkScript, e.params)
	if err != nil || len(addrs) != 1 {
		return nil, fmt.Errorf("unparsable change output: %v", err)
	}
	return addrs[0], nil
}

func raceSites() []site {
	return []site{
		{"NewAddress", 0, func(e *env, acct uint32, r *raceRun) (btcutil.Address, error) {
			return e.w.NewAddress(acct, r.scope)
		}},
		{"CurrentAddress", 0, func(e *env, acct uint32, r *raceRun) (btcutil.Address, error) {
			// issues a new address when the account has none yet or its last one is used
			return e.w.CurrentAddress(acct, r.scope)
		}},
		{"NewChangeAddress", 1, func(e *env, acct uint32, r *raceRun) (btcutil.Address, error) {
			return e.w.NewChangeAddress(acct, r.scope)
		}},
		{"CreateSimpleTx", 1, func(e *env, acct uint32, r *raceRun) (btcutil.Address, error) {
			outs := []*wire.TxOut{wire.NewTxOut(150_000, r.foreign)}
			atx, err := e.w.CreateSimpleTx(&r.scope, acct, outs, 1, 1000, wallet.CoinSelectionLargest, false)
			if err != nil {
				return nil, err
			}
			return changeAddrOf(atx.Tx, atx.ChangeIndex, e)
		}},
		{"FundPsbt", 1, func(e *env, acct uint32, r *raceRun) (btcutil.Address, error) {
			ops := r.utxos[acct]
			if len(ops) == 0 {
				return nil, fmt.Errorf("harness: account %d has no coin", acct)
			}
			op := ops[0]
			pkt, err := psbt.New([]*wire.OutPoint{&op}, []*wire.TxOut{wire.NewTxOut(150_000, r.foreign)}, 2, 0, []uint32{wire.MaxTxInSequenceNum})
			if err != nil {
				return nil, err
			}
			ci, err := e.w.FundPsbt(pkt, &r.scope, 1, acct, 1000, wallet.CoinSelectionLargest)
			if err != nil {
				return nil, err
			}
			return changeAddrOf(pkt.UnsignedTx, int(ci), e)
		}},
	}
}

// bystander: holds the mutex, issues on a fresh account inside a transaction that is always rolled back
func importDryRun(e *env, r *raceRun) error {
	r.nonce++
	seed := walletSeed(1000+r.nonce, 77)
	master, err := hdkeychain.NewMaster(seed, e.params)
	if err != nil {
		return err
	}
	k := master
	for _, i := range []uint32{84, 0, 0} {
		if k, err = k.DeriveNonStandard(hdkeychain.HardenedKeyStart + i); err != nil { // nolint:staticcheck
			return err
		}
	}
	xpub, err := k.Neuter()
	if err != nil {
		return err
	}
	at := waddrmgr.WitnessPubKey
	_, _, _, err = e.w.ImportAccountDryRun(fmt.Sprintf("dry-%d", r.nonce), xpub, 0, &at, 1)
	return err
}

func (r *raceRun) indexOf(addr btcutil.Address) (uint32, uint32, uint32, error) {
	ma, err := r.e.w.AddressInfo(addr)
	if err != nil {
		return 0, 0, 0, err
	}
	mpk, ok := ma.(waddrmgr.ManagedPubKeyAddress)
	if !ok {
		return 0, 0, 0, fmt.Errorf("not a pubkey address")
	}
	_, path, ok := mpk.DerivationInfo()
	if !ok {
		return 0, 0, 0, fmt.Errorf("no derivation info")
	}
	return path.InternalAccount, path.Branch, path.Index, nil
}

func (r *raceRun) counts(acct uint32) (uint32, uint32, error) {
	p, err := r.e.w.AccountProperties(r.scope, acct)
	if err != nil {
		return 0, 0, err
	}
	return p.ExternalKeyCount, p.InternalKeyCount, nil
}

// diskCounts opens a second address manager on a copy of the database file.
func (r *raceRun) diskCounts(acct uint32) (uint32, uint32, error) {
	cp := filepath.Join(r.e.dir, "shadow.db")
	if err := copyFile(r.e.dbPath, cp); err != nil {
		return 0, 0, err
	}
	defer os.Remove(cp)
	db, err := walletdb.Open("bdb", cp, true, 10*time.Second, false)
	if err != nil {
		return 0, 0, err
	}
	defer db.Close()
	var ext, in uint32
	err = walletdb.View(db, func(tx walletdb.ReadTx) error {
		ns := tx.ReadBucket(addrmgrNs)
		m, err := waddrmgr.Open(ns, pubPass, r.e.params)
		if err != nil {
			return err
		}
		defer m.Close()
		sm, err := m.FetchScopedKeyManager(r.scope)
		if err != nil {
			return err
		}
		p, err := sm.AccountProperties(ns, acct)
		if err != nil {
			return err
		}
		ext, in = p.ExternalKeyCount, p.InternalKeyCount
		return nil
	})
	return ext, in, err
}

// freshAccount creates an account with one used receiving address and two confirmed coins.
func (r *raceRun) freshAccount() (uint32, error) {
	e := r.e
	r.nonce++
	acct, err := e.w.NextAccount(r.scope, fmt.Sprintf("race-%d", r.nonce))
	if err != nil {
		return 0, err
	}
	addr, err := e.w.NewAddress(acct, r.scope)
	if err != nil {
		return 0, err
	}
	script, _ := txscript.PayToAddrScript(addr)
	var txs []*wire.MsgTx
	for k := 0; k < 2; k++ {
		tx := payTo(fmt.Sprintf("race-%p-%d", e, r.nonce), k, script, 1_000_000+int64(k))
		txs = append(txs, tx)
		op := wire.OutPoint{Hash: tx.TxHash(), Index: 0}
		r.utxos[acct] = append(r.utxos[acct], op)
		r.utxoOut[op] = tx.TxOut[0]
	}
	e.chain.Extend(txs)
	if err := e.settle(); err != nil {
		return 0, err
	}
	return acct, nil
}

// setupImported imports a private key and gives its address two confirmed coins.
func (r *raceRun) setupImported() error {
	e := r.e
	pk, _ := btcec.PrivKeyFromBytes(walletSeed(4242, 9))
	wif, err := btcutil.NewWIF(pk, e.params, true)
	if err != nil {
		return err
	}
	if _, err := e.w.ImportPrivateKey(r.scope, wif, nil, false); err != nil {
		return err
	}
	addr, err := btcutil.NewAddressWitnessPubKeyHash(btcutil.Hash160(pk.PubKey().SerializeCompressed()), e.params)
	if err != nil {
		return err
	}
	script, _ := txscript.PayToAddrScript(addr)
	var txs []*wire.MsgTx
	for k := 0; k < 2; k++ {
		tx := payTo(fmt.Sprintf("race-imp-%p", e), k, script, 2_000_000+int64(k))
		txs = append(txs, tx)
		op := wire.OutPoint{Hash: tx.TxHash(), Index: 0}
		r.utxos[waddrmgr.ImportedAddrAccount] = append(r.utxos[waddrmgr.ImportedAddrAccount], op)
		r.utxoOut[op] = tx.TxOut[0]
	}
	e.chain.Extend(txs)
	return e.settle()
}

// gatePair parks caller A at its commit callback, runs caller B, releases A.
func (r *raceRun) gatePair(sa, sb site, acct uint32, grace time.Duration, rep *common.Report, label string) (ra, rb callResult, bInWindow, ok bool) {
	e := r.e
	var mu sync.Mutex
	first := true
	reached := map[int]bool{}
	parked := make(chan struct{}, 4)
	release := make(chan struct{})
	setGate(func(name string) {
		if name != "nextaddr.oncommit" {
			return
		}
		mu.Lock()
		isFirst := first
		first = false
		if isFirst {
			reached[1] = true
		} else {
			reached[2] = true
		}
		mu.Unlock()
		if isFirst {
			parked <- struct{}{}
			<-release
		}
	})
	defer setGate(nil)
	resA := make(chan callResult, 1)
	resB := make(chan callResult, 1)
	go func() {
		addr, err := sa.call(e, acct, r)
		resA <- callResult{1, sa.name, addr, err}
	}()
	aDone := false
	select {
	case <-parked:
	case ra = <-resA:
		aDone = true
	case <-time.After(10 * time.Second):
		rep.AddError("%s: caller A neither parked nor finished", label)
		close(release)
		return ra, rb, false, false
	}
	go func() {
		addr, err := sb.call(e, acct, r)
		resB <- callResult{2, sb.name, addr, err}
	}()
	if !aDone {
		select {
		case rb = <-resB:
			bInWindow = true
		case <-time.After(grace):
		}
		close(release)
		ra = <-resA
	}
	if !bInWindow {
		select {
		case rb = <-resB:
		case <-time.After(20 * time.Second):
			rep.AddError("%s: caller B did not finish", label)
			return ra, rb, false, false
		}
	}
	return ra, rb, bInWindow, true
}

type callResult struct {
	caller int
	site   string
	addr   btcutil.Address
	err    error
}

func runRace(seed int, root string, grace time.Duration, stressRounds int, traceOut string, rep *common.Report) {
	e, err := newEnv(root, 0, seed, testParams(2), 0, true)
	if err != nil {
		rep.AddError("setup: %v", err)
		return
	}
	defer func() {
		if !raceHung {
			e.close()
		}
	}()
	defer setGate(nil)
	if err := e.start(); err != nil {
		rep.AddError("start: %v", err)
		return
	}
	if err := e.settle(); err != nil {
		rep.AddError("initial sync: %v", err)
		return
	}
	e.awaitResend()
	if err := e.w.Unlock(privPass, nil); err != nil {
		rep.AddError("unlock: %v", err)
		return
	}
	r := &raceRun{e: e, scope: waddrmgr.KeyScopeBIP0084, utxos: map[uint32][]wire.OutPoint{}, utxoOut: map[wire.OutPoint]*wire.TxOut{}}
	fa, _ := btcutil.NewAddressWitnessPubKeyHash(make([]byte, 20), e.params)
	r.foreign, _ = txscript.PayToAddrScript(fa)

	var traces [][]raceEvent
	report := func(sig, what string, obs, exp interface{}, scenario interface{}) {
		m := common.Mismatch{Prop: "C09", Sig: "race:" + sig, What: what, Observed: obs, Expected: exp}
		m.Behav, _ = json.Marshal(map[string]interface{}{"scenario": scenario})
		rep.AddMismatch(m)
	}
	sites := raceSites()
	nchecks := 0

	// verdict shared by gate scenarios and stress rounds
	verdict := func(label string, acct uint32, ext0, int0 uint32, results []callResult, scenario interface{}) []raceEvent {
		var evs []raceEvent
		seen := map[string]int{}
		idxs := map[uint32][]int{}
		for _, res := range results {
			if res.err != nil {
				report("call:"+res.site, label+": "+res.site+" failed", res.err.Error(), "success", scenario)
				continue
			}
			if res.addr == nil {
				continue // the site needed no new address
			}
			nchecks++
			if prev, dup := seen[res.addr.String()]; dup {
				report("duplicate:"+label, fmt.Sprintf("%s: callers %d and %d received the same address", label, prev, res.caller), res.addr.String(), "distinct addresses", scenario)
			}
			seen[res.addr.String()] = res.caller
			a, b, i, err := r.indexOf(res.addr)
			if err != nil || a != acct {
				report("lookup:"+label, label+": returned address is not an address of the account", fmt.Sprint(a, err), acct, scenario)
				continue
			}
			idxs[b] = append(idxs[b], int(i))
			base := ext0
			if b == 1 {
				base = int0
			}
			evs = append(evs, raceEvent{"done", res.caller, int(i) - int(base)})
		}
		for b, is := range idxs {
			sort.Ints(is)
			base := int(ext0)
			if b == 1 {
				base = int(int0)
			}
			for k, i := range is {
				if i != base+k {
					report("gap:"+label, fmt.Sprintf("%s: indices issued on branch %d are not a gap-free range from %d", label, b, base), is, "consecutive", scenario)
					break
				}
			}
		}
		ext1, int1, err := r.counts(acct)
		dext, dint, derr := r.diskCounts(acct)
		nchecks++
		if err != nil || derr != nil {
			report("counts:"+label, label+": reading key counts", fmt.Sprint(err, derr), "ok", scenario)
		} else {
			wantExt, wantInt := ext0+uint32(len(idxs[0])), int0+uint32(len(idxs[1]))
			if ext1 != wantExt || int1 != wantInt {
				report("memory:"+label, label+": in-memory next indices after the calls", fmt.Sprintf("ext=%d int=%d", ext1, int1), fmt.Sprintf("ext=%d int=%d", wantExt, wantInt), scenario)
			}
			if dext != ext1 || dint != int1 {
				report("disk:"+label, label+": database disagrees with memory", fmt.Sprintf("disk ext=%d int=%d", dext, dint), fmt.Sprintf("memory ext=%d int=%d", ext1, int1), scenario)
			}
		}
		return evs
	}

	// (i) gate scenarios: every ordered pair of sites of the same branch, plus the bystander as B
	type pair struct{ a, b int } // b = -1: ImportAccountDryRun
	var pairs []pair
	for ai := range sites {
		for bi := range sites {
			if sites[ai].branch == sites[bi].branch {
				pairs = append(pairs, pair{ai, bi})
			}
		}
		pairs = append(pairs, pair{ai, -1})
	}
	for _, p := range pairs {
		acct, err := r.freshAccount()
		if err != nil {
			rep.AddError("fresh account: %v", err)
			return
		}
		// CurrentAddress only issues when the last address is used: the funding made it so.
		ext0, int0, _ := r.counts(acct)
		bname := "ImportAccountDryRun"
		if p.b >= 0 {
			bname = sites[p.b].name
		}
		label := sites[p.a].name + "|" + bname
		scenario := map[string]interface{}{"A": sites[p.a].name, "B": bname, "account": acct}

		var evMu sync.Mutex
		var evs []raceEvent
		parked := make(chan struct{}, 4)
		release := make(chan struct{})
		first := true
		curCaller := map[int64]int{}
		_ = curCaller
		var gateOrder []int
		setGate(func(name string) {
			if name != "nextaddr.oncommit" {
				return
			}
			evMu.Lock()
			isFirst := first
			first = false
			// the caller whose callback this is: A reaches it first in a correct run; if B
			// gets here while A is parked it is B
			who := 2
			if isFirst {
				who = 1
			}
			gateOrder = append(gateOrder, who)
			evs = append(evs, raceEvent{"gate", who, 0})
			evMu.Unlock()
			if isFirst {
				parked <- struct{}{}
				<-release
			}
		})
		resA := make(chan callResult, 1)
		resB := make(chan callResult, 1)
		go func() {
			addr, err := sites[p.a].call(e, acct, r)
			resA <- callResult{1, sites[p.a].name, addr, err}
		}()
		aParked := false
		var ra, rb callResult
		var aDone bool
		select {
		case <-parked:
			aParked = true
		case ra = <-resA:
			aDone = true // A needed no new address (cannot happen with fresh accounts)
		case <-time.After(10 * time.Second):
			rep.AddError("%s: caller A neither parked nor finished", label)
			close(release)
			setGate(nil)
			return
		}
		go func() {
			if p.b < 0 {
				err := importDryRun(e, r)
				resB <- callResult{2, bname, nil, err}
				return
			}
			addr, err := sites[p.b].call(e, acct, r)
			resB <- callResult{2, sites[p.b].name, addr, err}
		}()
		bInWindow := false
		if aParked {
			select {
			case rb = <-resB:
				bInWindow = true // B ran to completion while A was inside the window
			case <-time.After(grace):
			}
			close(release)
		}
		if !aDone {
			ra = <-resA
		}
		if !bInWindow {
			select {
			case rb = <-resB:
			case <-time.After(20 * time.Second):
				rep.AddError("%s: caller B did not finish", label)
				setGate(nil)
				return
			}
		}
		setGate(nil)
		scenario["B_finished_inside_window"] = bInWindow
		// CurrentAddress hands out the last address again while it is unused: it only
		// counts as an issuing call if its commit callback was reached
		evMu.Lock()
		reached := map[int]bool{}
		for _, g := range gateOrder {
			reached[g] = true
		}
		evMu.Unlock()
		if ra.site == "CurrentAddress" && !reached[1] {
			ra.addr = nil
		}
		if rb.site == "CurrentAddress" && !reached[2] {
			rb.addr = nil
		}
		results := []callResult{ra, rb}
		done := verdict(label, acct, ext0, int0, results, scenario)
		rep.Nontriv("gate|" + label)
		rep.Inc("gate_scenarios", 1)
		if bInWindow {
			rep.Inc("b_finished_inside_window", 1)
		}
		// trace for AddrIssueTrace.tla (bystander scenarios have a rolled-back caller the spec does not model)
		if p.b >= 0 {
			evMu.Lock()
			tr := append([]raceEvent(nil), evs...)
			evMu.Unlock()
			// order: A's gate, then whatever B logged, then done events in completion order
			if bInWindow {
				// B completed before A was released: its done precedes A's
				var bd, ad []raceEvent
				for _, d := range done {
					if d.C == 2 {
						bd = append(bd, d)
					} else {
						ad = append(ad, d)
					}
				}
				tr = append(tr, bd...)
				tr = append(tr, ad...)
			} else {
				// A finished first; B's gate (if any) was logged after the release
				var gatesB []raceEvent
				var rest []raceEvent
				for _, ev := range tr {
					if ev.Ev == "gate" && ev.C == 2 {
						gatesB = append(gatesB, ev)
					} else {
						rest = append(rest, ev)
					}
				}
				tr = rest
				for _, d := range done {
					if d.C == 1 {
						tr = append(tr, d)
					}
				}
				tr = append(tr, gatesB...)
				for _, d := range done {
					if d.C == 2 {
						tr = append(tr, d)
					}
				}
			}
			traces = append(traces, tr)
		}
	}

	// (i') sites that name different accounts but issue on the same branch: a spend from the
	// imported-keys account takes its change from the default account's internal branch
	if err := r.setupImported(); err != nil {
		rep.AddError("imported account: %v", err)
		return
	}
	cross := []site{
		sites[2], // NewChangeAddress(0)
		{"CreateSimpleTx(imported)", 1, func(e *env, _ uint32, r *raceRun) (btcutil.Address, error) {
			outs := []*wire.TxOut{wire.NewTxOut(150_000, r.foreign)}
			atx, err := e.w.CreateSimpleTx(&r.scope, waddrmgr.ImportedAddrAccount, outs, 1, 1000, wallet.CoinSelectionLargest, false)
			if err != nil {
				return nil, err
			}
			return changeAddrOf(atx.Tx, atx.ChangeIndex, e)
		}},
		{"FundPsbt(imported)", 1, func(e *env, _ uint32, r *raceRun) (btcutil.Address, error) {
			op := r.utxos[waddrmgr.ImportedAddrAccount][0]
			pkt, err := psbt.New([]*wire.OutPoint{&op}, []*wire.TxOut{wire.NewTxOut(150_000, r.foreign)}, 2, 0, []uint32{wire.MaxTxInSequenceNum})
			if err != nil {
				return nil, err
			}
			ci, err := e.w.FundPsbt(pkt, &r.scope, 1, waddrmgr.ImportedAddrAccount, 1000, wallet.CoinSelectionLargest)
			if err != nil {
				return nil, err
			}
			return changeAddrOf(pkt.UnsignedTx, int(ci), e)
		}},
	}
	for ai := range cross {
		for bi := range cross {
			ext0, int0, _ := r.counts(0)
			label := cross[ai].name + "|" + cross[bi].name
			scenario := map[string]interface{}{"A": cross[ai].name, "B": cross[bi].name, "account": 0}
			ra, rb, bIn, ok := r.gatePair(cross[ai], cross[bi], 0, grace, rep, label)
			if !ok {
				return
			}
			scenario["B_finished_inside_window"] = bIn
			verdict(label, 0, ext0, int0, []callResult{ra, rb}, scenario)
			rep.Nontriv("gate|" + label)
			rep.Inc("gate_scenarios", 1)
		}
	}

	// (ii) free-running stress
	for round := 0; round < stressRounds; round++ {
		acct, err := r.freshAccount()
		if err != nil {
			rep.AddError("fresh account: %v", err)
			return
		}
		ext0, int0, _ := r.counts(acct)
		const workers = 16
		var wg sync.WaitGroup
		results := make([]callResult, workers)
		start := make(chan struct{})
		for k := 0; k < workers; k++ {
			wg.Add(1)
			go func(k int) {
				defer wg.Done()
				s := sites[(k+round)%len(sites)]
				if s.name == "CurrentAddress" {
					s = sites[0] // CurrentAddress re-reads the last address when it is unused; not comparable under stress
				}
				<-start
				addr, err := s.call(e, acct, r)
				results[k] = callResult{k + 1, s.name, addr, err}
			}(k)
		}
		close(start)
		finished := make(chan struct{})
		go func() { wg.Wait(); close(finished) }()
		select {
		case <-finished:
		case <-time.After(30 * time.Second):
			// not a verdict about addresses: the calls block each other (e.g. a lock-order inversion)
			rep.AddError("stress round %d: issuing calls did not return within 30 s", round)
			rep.Count(len(pairs)+round, 0, nchecks)
			raceHung = true // the wallet cannot be shut down cleanly any more
			return
		}
		verdict(fmt.Sprintf("stress"), acct, ext0, int0, results, map[string]interface{}{"stress_round": round, "account": acct})
		rep.Inc("stress_rounds", 1)
		rep.Nontriv(fmt.Sprintf("stress|%d", round))
	}

	rep.Count(len(pairs)+stressRounds, 0, nchecks)
	rep.Sample(map[string]interface{}{"gate_pairs": len(pairs), "stress_rounds": stressRounds})
	if traceOut != "" {
		f, err := os.Create(traceOut)
		if err != nil {
			rep.AddError("trace out: %v", err)
			return
		}
		enc := json.NewEncoder(f)
		for i, tr := range traces {
			if i > 0 {
				enc.Encode(raceEvent{"reset", 0, 0})
			}
			for _, ev := range tr {
				enc.Encode(ev)
			}
		}
		f.Close()
		rep.Inc("recorded_traces", len(traces))
	}
}
