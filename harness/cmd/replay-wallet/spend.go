package main

import (
	"crypto/sha256"
	"encoding/json"
	"errors"
	"fmt"
	"sort"
	"strconv"
	"strings"
	"time"

	"github.com/btcsuite/btcd/btcec/v2"
	"github.com/btcsuite/btcd/btcutil"
	"github.com/btcsuite/btcd/btcutil/hdkeychain"
	"github.com/btcsuite/btcd/btcutil/psbt"
	"github.com/btcsuite/btcd/chaincfg/chainhash"
	"github.com/btcsuite/btcd/txscript"
	"github.com/btcsuite/btcd/wire"
	"github.com/btcsuite/btcwallet/chain"
	"github.com/btcsuite/btcwallet/waddrmgr"
	"github.com/btcsuite/btcwallet/wallet"
	"github.com/btcsuite/btcwallet/walletdb"
	"github.com/btcsuite/btcwallet/wtxmgr"

	"verif/harness/internal/common"
	"verif/harness/internal/faultdb"
	"verif/harness/internal/mockchain"
)

// ---- Spend.tla behaviours (C06, C20) ----

type spStep struct {
	Op  string          `json:"op"`
	A   json.RawMessage `json:"a"`
	Ret string          `json:"ret"`
	Exp json.RawMessage `json:"exp"`
}

type spArgs struct {
	C         int    `json:"c"`
	Cb        []int  `json:"cb"`
	ID        int    `json:"id"`
	Acct      int    `json:"acct"`
	Scope     string `json:"scope"`
	Mc        int    `json:"mc"`
	K         int    `json:"k"`
	Ans       string `json:"ans"`
	N         int    `json:"n"`
	Ins       []int  `json:"ins"`
	Elig      []int  `json:"elig"`
	Sel       []int  `json:"sel"`
	Forgotten []int  `json:"forgotten"`
	CScope    string `json:"cscope"`
}

type spSend struct {
	Status interface{} `json:"status"`
	Ins    []int       `json:"ins"`
	Change bool        `json:"change"`
}

// TLC's ToJson writes a function whose domain starts at 0 as an object with the numbers as keys
type spAcctBal struct {
	Total     []int            `json:"total"`
	Immature  []int            `json:"immature"`
	Spendable map[string][]int `json:"spendable"`
}

type spObs struct {
	AcctBal     map[string]spAcctBal                   `json:"acctBal"`
	ScopeBal    map[string]map[string]map[string][]int `json:"scopeBal"`
	Tip         int                                    `json:"tip"`
	St          []interface{}                          `json:"st"`
	SpentBy     []int                                  `json:"spentBy"`
	Spendable   []int                                  `json:"spendable"`
	Bal         map[string][]int                       `json:"bal"`
	Sends       []spSend                               `json:"sends"`
	UnconfSends []int                                  `json:"unconfSends"`
	Locked      []int                                  `json:"locked"`
	Leased      []int                                  `json:"leased"`
}

type spTrace struct {
	Mat      int             `json:"mat"`
	NBase    int             `json:"nbase"`
	MaxSends int             `json:"maxsends"`
	Steps    []spStep        `json:"steps"`
	Pre      json.RawMessage `json:"pre"`
	Exp      json.RawMessage `json:"exp"`
}

type baseAttr struct {
	acct  uint32
	scope string
	val   int64
	cb    bool
}

// must agree with BaseAttr of spec/Spend.tla (the behaviours carry the
// eligible sets, so a disagreement shows up as a harness error, not a verdict)
var baseAttrs = map[int]baseAttr{
	1: {0, "bip84", 8, false}, 2: {0, "bip86", 4, false}, 3: {0, "bip86", 2, false},
	4: {1, "bip84", 1, false}, 5: {0, "bip84", 16, true}, 6: {0, "bip86", 32, false},
	7: {0, "bip49", 64, false}, 8: {0, "bip44", 128, false},
	9:  {2, "bip84", 256, false}, // account 2 of the model = the imported-keys account
	10: {2, "bip44", 512, false}, // a second imported key, in another key scope
}

// chgAcct is the account that receives the change of a request made from the
// model's account a: imported keys have no change branch, the wallet uses account 0.
func chgAcct(a int) int {
	if a == 2 {
		return 0
	}
	return a
}

// acctNum maps the model's account to the wallet's account number.
func acctNum(a int) uint32 {
	if a == 2 {
		return waddrmgr.ImportedAddrAccount
	}
	return uint32(a)
}

var scopeOf = map[string]waddrmgr.KeyScope{"bip84": waddrmgr.KeyScopeBIP0084, "bip86": waddrmgr.KeyScopeBIP0086,
	"bip49": waddrmgr.KeyScopeBIP0049Plus, "bip44": waddrmgr.KeyScopeBIP0044}

const unitSat = 1_000_000

func margin(n int) int64 { return 400_000 + 20_000*int64(n) }

type spWorld struct {
	e        *env
	prop     string
	nbase    int
	txOf     map[int]*wire.MsgTx   // base coin -> funding tx
	opOf     map[int]wire.OutPoint // coin -> outpoint
	outOf    map[int]*wire.TxOut   // coin -> output
	coinOf   map[wire.OutPoint]int
	sendTx   map[int]*wire.MsgTx // send number -> created tx
	sendAcct map[int]int
	maxSends int            // from the length of the model's coin vector: nbase + 2 * maxSends
	selfScr  map[int][]byte // send number -> script of its payment to the wallet itself
	lastErr  error          // result of the last SendOutputs / SendOutputsWithInput call
	called   bool
	foreign  []byte
	diffs    [][4]interface{}
	n        int
	tagSeed  string
}

func (w *spWorld) add(class, what string, obs, exp interface{}) {
	w.diffs = append(w.diffs, [4]interface{}{class, what, obs, exp})
}

// which classes a property owns
var spOwns = map[string]map[string]bool{
	"C06": {"inputs": true, "sig": true, "refusal": true, "eligibility": true, "psbt-refusal": true},
	"C20": {"state": true, "balance": true, "resend": true, "answer": true},
	// wallet-level passes of the transaction-store properties
	"C10": {"fault": true},
	"C01": {"balance": true},
	"C13": {"history": true},
}

func lockID(id int) wtxmgr.LockID {
	var l wtxmgr.LockID
	l[0], l[31] = byte(id), 0x5a
	return l
}

func replaySpend(idx int, line []byte, prop string, seed int, root string, rep *common.Report) {
	var tr spTrace
	if err := json.Unmarshal(line, &tr); err != nil {
		rep.AddError("trace %d: %v", idx, err)
		return
	}
	e, err := newEnv(root, idx, seed, testParams(tr.Mat), 0, true)
	if err != nil {
		rep.AddError("trace %d: setup: %v", idx, err)
		return
	}
	defer e.close()
	if tr.MaxSends == 0 {
		rep.AddError("trace %d: the behaviour does not say how many created transactions the model allows", idx)
		return
	}
	w := &spWorld{e: e, prop: prop, nbase: tr.NBase, maxSends: tr.MaxSends, txOf: map[int]*wire.MsgTx{}, opOf: map[int]wire.OutPoint{},
		outOf: map[int]*wire.TxOut{}, coinOf: map[wire.OutPoint]int{}, sendTx: map[int]*wire.MsgTx{}, sendAcct: map[int]int{}, selfScr: map[int][]byte{},
		tagSeed: fmt.Sprintf("sp-%d-%d", idx, seed)}
	report := func(step int, d [4]interface{}) {
		last := "init"
		if step >= 0 && step < len(tr.Steps) {
			last = tr.Steps[step].Op
			var a spArgs
			json.Unmarshal(tr.Steps[step].A, &a)
			if a.Ans != "" && a.Ans != "accepted" {
				last += "/" + a.Ans
			}
		}
		m := common.Mismatch{Prop: prop, Sig: fmt.Sprintf("spend:%s:%s", d[0], last), Trace: idx, Step: step,
			What: d[1].(string), Observed: d[2], Expected: d[3]}
		cut := tr
		if step >= 0 && step+1 < len(tr.Steps) {
			cut.Steps = tr.Steps[:step+1]
		}
		m.Behav, _ = json.Marshal(cut)
		rep.AddMismatch(m)
	}
	if err := w.setup(); err != nil {
		rep.AddError("trace %d: setup: %v", idx, err)
		return
	}
	for si := range tr.Steps {
		st := &tr.Steps[si]
		var a spArgs
		if len(st.A) > 0 && st.A[0] == '{' {
			json.Unmarshal(st.A, &a)
		}
		w.diffs = nil
		if prop == "C10" && (st.Op == "Send" || st.Op == "SendExplicit") && st.Ret == "ok" && (a.Ans == "" || a.Ans == "accepted") {
			// wallet-level fault enumeration: the k-th database write of the whole operation (all its
			// transactions) fails, for k = 1, 2, ... until a run meets no fault - that run is the real execution
			var pre *spObs
			if si > 0 && len(tr.Steps[si-1].Exp) > 0 && tr.Steps[si-1].Exp[0] == '{' {
				pre = new(spObs)
				json.Unmarshal(tr.Steps[si-1].Exp, pre)
			} else if si == len(tr.Steps)-1 && len(tr.Pre) > 0 && tr.Pre[0] == '{' {
				pre = new(spObs)
				json.Unmarshal(tr.Pre, pre)
			}
			if pre != nil {
				stop := false
				for k := 1; k <= 400 && !stop; k++ {
					inj := &faultdb.Injector{FailAt: k}
					e.fdb.Arm(inj)
					w.diffs, w.called = nil, false
					aerr := w.apply(st, &a, rep)
					e.fdb.Arm(nil)
					if aerr != nil {
						rep.AddError("trace %d step %d (%s, fault at write %d): %v", idx, si, st.Op, k, aerr)
						return
					}
					if !inj.Fired {
						rep.Inc("fault_free_runs", 1)
						goto executed
					}
					rep.Inc("faults_injected", 1)
					rep.Nontriv(fmt.Sprintf("fault|%s|%d|%s", st.Op, k, inj.Kind))
					w.diffs = nil // comparisons made by a faulted run are not verdicts
					if serr := e.settle(); serr != nil {
						report(si, [4]interface{}{"liveness", "wallet stopped processing notifications", serr.Error(), "drained"})
						return
					}
					w.n++
					if w.called && w.lastErr == nil {
						w.add("fault", fmt.Sprintf("%s reports success although database write %d (%s) of the operation failed", st.Op, k, inj.Kind), "ok", "an error")
						stop = true
					} else {
						// nothing of the operation may remain
						w.observe(pre)
						for i := range w.diffs {
							if w.diffs[i][0] != "harness" {
								w.diffs[i][0] = "fault"
								w.diffs[i][1] = fmt.Sprintf("after %s failed at database write %d (%s): %v", st.Op, k, inj.Kind, w.diffs[i][1])
							}
						}
						if len(w.diffs) > 0 {
							stop = true
						}
					}
				}
				for _, d := range w.diffs {
					if d[0].(string) == "harness" {
						rep.AddError("trace %d step %d: %v %v %v", idx, si, d[1], d[2], d[3])
						return
					}
					report(si, d)
				}
				rep.Inc("diverged_behaviours", 1)
				break
			}
		}
		if err := w.apply(st, &a, rep); err != nil {
			rep.AddError("trace %d step %d (%s): %v", idx, si, st.Op, err)
			return
		}
	executed:
		if err := e.settle(); err != nil {
			report(si, [4]interface{}{"liveness", "wallet stopped processing notifications", err.Error(), "drained"})
			return
		}
		var exp *spObs
		var derr error
		if len(st.Exp) > 0 && st.Exp[0] == '{' {
			exp = new(spObs)
			derr = json.Unmarshal(st.Exp, exp)
		} else if si == len(tr.Steps)-1 && len(tr.Exp) > 0 && tr.Exp[0] == '{' {
			exp = new(spObs)
			derr = json.Unmarshal(tr.Exp, exp)
		}
		if derr != nil {
			rep.AddError("trace %d step %d: expectation does not decode: %v", idx, si, derr)
			return
		}
		if exp != nil {
			w.observe(exp)
			if st.Op == "Restart" || st.Op == "RestartRej" || st.Op == "Resync" || st.Op == "ResyncRej" {
				w.checkResend(exp)
			}
		}
		diverged := false
		for _, d := range w.diffs {
			class := d[0].(string)
			if class == "harness" {
				rep.AddError("trace %d step %d: %v %v %v", idx, si, d[1], d[2], d[3])
				return
			}
			if class != "psbt-refusal" && class != "sig" {
				diverged = true // the wallet's state may differ from the model's from here on
			}
			if spOwns[prop][class] {
				report(si, d)
			}
		}
		if diverged {
			rep.Inc("diverged_behaviours", 1)
			break
		}
		if exp != nil {
			rep.Nontriv(fmt.Sprintf("%s|%v|%v|%v|%v", st.Op+string(st.A), exp.St, exp.SpentBy, exp.Locked, exp.Leased))
		}
	}
	rep.Count(1, len(tr.Steps), w.n)
	if len(tr.Steps) >= 4 {
		var ss []string
		for _, st := range tr.Steps {
			ss = append(ss, st.Op+string(st.A)+"->"+st.Ret)
		}
		rep.Sample(ss)
	}
}

func (w *spWorld) setup() error {
	e := w.e
	if err := e.start(); err != nil {
		return err
	}
	if err := e.settle(); err != nil {
		return err
	}
	if err := e.awaitResend(); err != nil {
		return err
	}
	if err := e.w.Unlock(privPass, nil); err != nil {
		return err
	}
	for _, sc := range []waddrmgr.KeyScope{waddrmgr.KeyScopeBIP0084, waddrmgr.KeyScopeBIP0086,
		waddrmgr.KeyScopeBIP0049Plus} {
		if _, err := e.w.NextAccount(sc, "second"); err != nil {
			return fmt.Errorf("NextAccount: %w", err)
		}
	}
	// account 1 of the legacy scope is an imported, watch-only account (somebody else's account key)
	{
		fs := sha256.Sum256([]byte("foreign-account-" + w.tagSeed))
		fm, err := hdkeychain.NewMaster(fs[:], e.params)
		if err != nil {
			return err
		}
		k := fm
		for _, ix := range []uint32{hdkeychain.HardenedKeyStart + 44, hdkeychain.HardenedKeyStart + 1, hdkeychain.HardenedKeyStart + 7} {
			if k, err = k.Derive(ix); err != nil {
				return err
			}
		}
		xpub, err := k.Neuter()
		if err != nil {
			return err
		}
		props, err := e.w.ImportAccountWithScope("foreign", xpub, 0x01020304, waddrmgr.KeyScopeBIP0044,
			waddrmgr.ScopeAddrSchema{ExternalAddrType: waddrmgr.PubKeyHash, InternalAddrType: waddrmgr.PubKeyHash})
		if err != nil {
			return fmt.Errorf("ImportAccountWithScope: %w", err)
		}
		if props.AccountNumber != 1 {
			return fmt.Errorf("imported account got number %d, the harness expects 1", props.AccountNumber)
		}
	}
	fk := sha256.Sum256([]byte("foreign-receiver-" + w.tagSeed))
	_, pub := btcec.PrivKeyFromBytes(fk[:])
	fa, err := btcutil.NewAddressWitnessPubKeyHash(btcutil.Hash160(pub.SerializeCompressed()), e.params)
	if err != nil {
		return err
	}
	w.foreign, _ = txscript.PayToAddrScript(fa)
	for c := 1; c <= w.nbase; c++ {
		at := baseAttrs[c]
		var addr btcutil.Address
		var err error
		if at.acct == 2 {
			// a single private key imported into the scope (the wallet is unlocked here)
			kh := sha256.Sum256([]byte(fmt.Sprintf("imported-key-%s-%d", w.tagSeed, c)))
			priv, _ := btcec.PrivKeyFromBytes(kh[:])
			wif, werr := btcutil.NewWIF(priv, e.params, true)
			if werr != nil {
				return werr
			}
			sc := scopeOf[at.scope]
			var as string
			if as, err = e.w.ImportPrivateKey(sc, wif, nil, false); err != nil {
				return fmt.Errorf("ImportPrivateKey: %w", err)
			}
			addr, err = btcutil.DecodeAddress(as, e.params)
		} else {
			addr, err = e.w.NewAddress(at.acct, scopeOf[at.scope])
		}
		if err != nil {
			return fmt.Errorf("NewAddress: %w", err)
		}
		script, _ := txscript.PayToAddrScript(addr)
		var tx *wire.MsgTx
		if at.cb {
			tx = wire.NewMsgTx(1)
			tx.AddTxIn(wire.NewTxIn(wire.NewOutPoint(&chainhash.Hash{}, wire.MaxPrevOutIndex), []byte{0x02, byte(c), 0x01, 'v'}, nil))
			tx.AddTxOut(wire.NewTxOut(at.val*unitSat, script))
		} else {
			tx = payTo(w.tagSeed, c, script, at.val*unitSat)
		}
		w.txOf[c] = tx
		op := wire.OutPoint{Hash: tx.TxHash(), Index: 0}
		w.opOf[c] = op
		w.outOf[c] = tx.TxOut[0]
		w.coinOf[op] = c
	}
	return nil
}

func (w *spWorld) coinIDs(ops []wire.OutPoint) []int {
	var r []int
	for _, op := range ops {
		if c, ok := w.coinOf[op]; ok {
			r = append(r, c)
		} else {
			r = append(r, -1)
		}
	}
	sort.Ints(r)
	return r
}

func sorted(xs []int) []int {
	r := append([]int(nil), xs...)
	sort.Ints(r)
	return r
}

func subset(a, b []int) bool {
	m := map[int]bool{}
	for _, x := range b {
		m[x] = true
	}
	for _, x := range a {
		if !m[x] {
			return false
		}
	}
	return true
}

func (w *spWorld) sumVal(cs []int) int64 {
	var s int64
	for _, c := range cs {
		if o := w.outOf[c]; o != nil {
			s += o.Value
		}
	}
	return s
}

// verifySigs executes btcd's script engine with the standard flags on every input.
func (w *spWorld) verifySigs(tx *wire.MsgTx) error {
	prev := map[wire.OutPoint]*wire.TxOut{}
	for _, in := range tx.TxIn {
		c, ok := w.coinOf[in.PreviousOutPoint]
		if !ok {
			return fmt.Errorf("input %v is not a coin of the universe", in.PreviousOutPoint)
		}
		prev[in.PreviousOutPoint] = w.outOf[c]
	}
	fetcher := txscript.NewMultiPrevOutFetcher(prev)
	hashes := txscript.NewTxSigHashes(tx, fetcher)
	for i, in := range tx.TxIn {
		po := prev[in.PreviousOutPoint]
		vm, err := txscript.NewEngine(po.PkScript, tx, i, txscript.StandardVerifyFlags, nil, hashes, po.Value, fetcher)
		if err != nil {
			return fmt.Errorf("input %d: %v", i, err)
		}
		if err := vm.Execute(); err != nil {
			return fmt.Errorf("input %d: %v", i, err)
		}
	}
	return nil
}

// recordSend registers a created transaction as send #n and its change coin.
func (w *spWorld) recordSend(n int, tx *wire.MsgTx) {
	w.sendTx[n] = tx
	h := tx.TxHash()
	w.e.chain.Track(h)
	for i, out := range tx.TxOut {
		if string(out.PkScript) != string(w.foreign) {
			c := w.nbase + n // change
			if scr, ok := w.selfScr[n]; ok && string(out.PkScript) == string(scr) {
				c = w.nbase + w.maxSends + n // the payment to the wallet itself
			}
			op := wire.OutPoint{Hash: h, Index: uint32(i)}
			w.opOf[c], w.outOf[c], w.coinOf[op] = op, out, c
		}
	}
}

// isChangeCoin: created by a send and not its self-payment.
func (w *spWorld) isChangeCoin(c int) bool { return c > w.nbase && c <= w.nbase+w.maxSends }

// sendOfCoin returns the number of the send that created coin c (0 for base coins).
func (w *spWorld) sendOfCoin(c int) int {
	switch {
	case c <= w.nbase:
		return 0
	case c <= w.nbase+w.maxSends:
		return c - w.nbase
	}
	return c - w.nbase - w.maxSends
}

func (w *spWorld) checkCreated(what string, tx *wire.MsgTx, amount int64, wantIns []int, exact bool, elig []int, a *spArgs) {
	var ops []wire.OutPoint
	seen := map[wire.OutPoint]bool{}
	for _, in := range tx.TxIn {
		if seen[in.PreviousOutPoint] {
			w.add("inputs", what+": the same output is spent twice in one transaction", in.PreviousOutPoint.String(), "distinct inputs")
		}
		seen[in.PreviousOutPoint] = true
		ops = append(ops, in.PreviousOutPoint)
	}
	got := w.coinIDs(ops)
	w.n++
	if !subset(got, elig) {
		w.add("inputs", what+": spends an output that is not eligible", got, fmt.Sprintf("subset of %v", sorted(elig)))
	} else if exact && fmt.Sprint(got) != fmt.Sprint(sorted(wantIns)) {
		w.add("inputs", what+": selected inputs", got, sorted(wantIns))
	}
	found := false
	nchange := 0
	for _, out := range tx.TxOut {
		if string(out.PkScript) == string(w.foreign) && out.Value == amount {
			found = true
		} else {
			nchange++
			// change must go to an internal address of the requested account and scope
			_, addrs, _, err := txscript.ExtractPkScriptAddrs(out.PkScript, w.e.params)
			if err != nil || len(addrs) != 1 {
				w.add("inputs", what+": unparsable change output", fmt.Sprint(err), "wallet change address")
				continue
			}
			ma, err := w.e.w.AddressInfo(addrs[0])
			if err != nil {
				w.add("inputs", what+": change does not pay a wallet address", err.Error(), "wallet change address")
			} else if !ma.Internal() || ma.InternalAccount() != uint32(chgAcct(a.Acct)) {
				w.add("inputs", what+": change address", fmt.Sprintf("internal=%v account=%d", ma.Internal(), ma.InternalAccount()),
					fmt.Sprintf("internal=true account=%d", chgAcct(a.Acct)))
			}
		}
	}
	if !found {
		w.add("inputs", what+": requested output missing or altered", fmt.Sprint(len(tx.TxOut), " outputs"), amount)
	}
	if nchange > 1 {
		w.add("inputs", what+": more than one change output", nchange, 1)
	}
	w.n++
	if err := w.verifySigs(tx); err != nil {
		w.add("sig", what+": signature does not verify under the standard script flags", err.Error(), "valid")
	}
}

func classify(err error) string {
	if err == nil {
		return "ok"
	}
	s := err.Error()
	switch {
	case strings.Contains(s, "insufficient funds"):
		return "insufficient"
	case strings.Contains(s, "not eligible"):
		return "refused"
	}
	return "error"
}

func (w *spWorld) apply(st *spStep, a *spArgs, rep *common.Report) error {
	e := w.e
	switch st.Op {
	case "Receive":
		e.chain.AcceptTx(w.txOf[a.C])
	case "Mine":
		// everything in the mempool, parents first: receipts, then sends in creation order
		inPool := map[chainhash.Hash]bool{}
		for _, tx := range e.chain.Mempool() {
			inPool[tx.TxHash()] = true
		}
		var txs []*wire.MsgTx
		for _, c := range a.Cb {
			txs = append(txs, w.txOf[c])
		}
		for c := 1; c <= w.nbase; c++ {
			if tx := w.txOf[c]; inPool[tx.TxHash()] {
				txs = append(txs, tx)
			}
		}
		var ns []int
		for n := range w.sendTx {
			ns = append(ns, n)
		}
		sort.Ints(ns)
		for _, n := range ns {
			if tx := w.sendTx[n]; inPool[tx.TxHash()] {
				txs = append(txs, tx)
			}
		}
		e.chain.Extend(txs)
	case "Lock":
		e.w.LockOutpoint(w.opOf[a.C])
	case "Unlock":
		e.w.UnlockOutpoint(w.opOf[a.C])
	case "Lease":
		if _, err := e.w.LeaseOutput(lockID(a.ID), w.opOf[a.C], time.Hour); err != nil {
			w.add("state", fmt.Sprintf("LeaseOutput(coin %d, id %d)", a.C, a.ID), err.Error(), "ok")
		}
	case "Release":
		if err := e.w.ReleaseOutput(lockID(a.ID), w.opOf[a.C]); err != nil {
			w.add("state", fmt.Sprintf("ReleaseOutput(coin %d, id %d)", a.C, a.ID), err.Error(), "ok")
		}
	case "Send", "SendExplicit":
		scope := scopeOf[a.Scope]
		var amount int64
		var sel []wire.OutPoint
		what := fmt.Sprintf("%s(acct %d, %s, minconf %d)", st.Op, a.Acct, a.Scope, a.Mc)
		if st.Op == "SendExplicit" {
			// the change must stay below the smallest base coin (1 unit), because the model ranks every
			// change coin below every base coin for largest-first selection: pay everything but a margin,
			// or half of it when the selection itself is worth less than two margins
			if v := w.sumVal(a.Sel); v > 2*margin(a.N) {
				amount = v - margin(a.N)
			} else {
				amount = v / 2
			}
			for _, c := range sorted(a.Sel) {
				sel = append(sel, w.opOf[c])
			}
		} else if st.Ret == "insufficient" {
			amount = w.sumVal(a.Elig) + unitSat
		} else {
			amount = w.sumVal(a.Ins) - margin(a.N)
		}
		switch a.Ans {
		case "rejected":
			e.chain.SendAnswer = func(*wire.MsgTx) error {
				return errors.New("mock backend: transaction rejected: min relay fee not met")
			}
		case "inmempool":
			e.chain.SendAnswer = func(*wire.MsgTx) error { return chain.ErrTxAlreadyInMempool }
		case "notifyfail1":
			e.chain.ArmNotifyRecvFailure(1)
		case "notifyfail2":
			e.chain.ArmNotifyRecvFailure(2)
		}
		outs := []*wire.TxOut{wire.NewTxOut(amount, w.foreign)}
		var tx *wire.MsgTx
		var err error
		label := "verif-label" // every send carries a label, so the label write is part of the operation
		if a.Ans == "badlabel" {
			// a label the store refuses (longer than wtxmgr.TxLabelLimit): the wallet returns an error
			label = strings.Repeat("x", wtxmgr.TxLabelLimit+1)
		}
		if st.Op == "SendExplicit" {
			tx, err = e.w.SendOutputsWithInput(outs, &scope, acctNum(a.Acct), int32(a.Mc), 1000, wallet.CoinSelectionLargest, label, sel)
		} else {
			tx, err = e.w.SendOutputs(outs, &scope, acctNum(a.Acct), int32(a.Mc), 1000, wallet.CoinSelectionLargest, label)
		}
		e.chain.SendAnswer = nil
		e.chain.ArmNotifyRecvFailure(0)
		w.lastErr, w.called = err, true
		got := classify(err)
		w.n++
		if got != st.Ret {
			class := "answer"
			if st.Ret == "refused" || st.Ret == "insufficient" || got == "refused" || got == "insufficient" {
				class = "refusal"
			}
			if st.Ret == "ok" && a.Ans == "accepted" {
				class = "eligibility"
			}
			if a.Ans == "inmempool" {
				class = "answer"
			}
			w.add(class, what+" result", fmt.Sprintf("%s (%v)", got, err), st.Ret)
			return nil
		}
		if err == nil {
			if st.Op == "SendExplicit" {
				w.checkCreated(what, tx, amount, a.Sel, true, a.Elig, a)
			} else {
				w.checkCreated(what, tx, amount, a.Ins, true, a.Elig, a)
			}
			w.sendAcct[a.N] = chgAcct(a.Acct)
			w.recordSend(a.N, tx)
		}
	case "SendSelf":
		scope := scopeOf[a.Scope]
		what := fmt.Sprintf("SendOutputs paying a foreign party and the wallet itself (acct %d, %s, minconf %d)", a.Acct, a.Scope, a.Mc)
		own, err := e.w.NewAddress(0, waddrmgr.KeyScopeBIP0084)
		if err != nil {
			return fmt.Errorf("NewAddress: %w", err)
		}
		ownScr, _ := txscript.PayToAddrScript(own)
		const selfAmt = 300_000
		amount := w.sumVal(a.Ins) - margin(a.N) - selfAmt
		w.selfScr[a.N] = ownScr
		outs := []*wire.TxOut{wire.NewTxOut(amount, w.foreign), wire.NewTxOut(selfAmt, ownScr)}
		tx, err := e.w.SendOutputs(outs, &scope, acctNum(a.Acct), int32(a.Mc), 1000, wallet.CoinSelectionLargest, "verif-label")
		w.lastErr, w.called = err, true
		w.n++
		if err != nil {
			delete(w.selfScr, a.N)
			w.add("eligibility", what+" result", err.Error(), "ok")
			return nil
		}
		var ops []wire.OutPoint
		for _, in := range tx.TxIn {
			ops = append(ops, in.PreviousOutPoint)
		}
		if got := w.coinIDs(ops); fmt.Sprint(got) != fmt.Sprint(sorted(a.Ins)) {
			w.add("inputs", what+": selected inputs", got, sorted(a.Ins))
		}
		w.n++
		if err := w.verifySigs(tx); err != nil {
			w.add("sig", what+": signature does not verify under the standard script flags", err.Error(), "valid")
		}
		w.sendAcct[a.N] = chgAcct(a.Acct)
		w.recordSend(a.N, tx)
	case "SendDup":
		// the same eligible output listed twice, for an amount one use cannot pay: any refusal is fine,
		// a transaction that spends the output twice is not
		scope := scopeOf[a.Scope]
		what := fmt.Sprintf("SendOutputsWithInput(acct %d, %s, minconf %d) with coin %d listed twice", a.Acct, a.Scope, a.Mc, a.C)
		amount := w.outOf[a.C].Value + w.outOf[a.C].Value/2
		outs := []*wire.TxOut{wire.NewTxOut(amount, w.foreign)}
		sel := []wire.OutPoint{w.opOf[a.C], w.opOf[a.C]}
		tx, err := e.w.SendOutputsWithInput(outs, &scope, acctNum(a.Acct), int32(a.Mc), 1000, wallet.CoinSelectionLargest, "", sel)
		w.n++
		if err == nil {
			seen := map[wire.OutPoint]bool{}
			dup := false
			for _, in := range tx.TxIn {
				if seen[in.PreviousOutPoint] {
					dup = true
				}
				seen[in.PreviousOutPoint] = true
			}
			if dup {
				w.add("inputs", what+": the created transaction spends the same output twice", fmt.Sprintf("%d inputs, %d distinct", len(tx.TxIn), len(seen)), "refused")
			} else {
				w.add("refusal", what+" result", "ok", "refused")
			}
		}
	case "FundOwn":
		scope := scopeOf[a.Scope]
		what := fmt.Sprintf("FundPsbt with caller-chosen inputs (acct %d, %s, minconf %d)", a.Acct, a.Scope, a.Mc)
		var ins []*wire.OutPoint
		var seqs []uint32
		for _, c := range sorted(a.Sel) {
			op := w.opOf[c]
			ins = append(ins, &op)
			seqs = append(seqs, wire.MaxTxInSequenceNum)
		}
		amount := w.sumVal(a.Sel) - margin(9)
		pkt, err := psbt.New(ins, []*wire.TxOut{wire.NewTxOut(amount, w.foreign)}, 2, 0, seqs)
		if err != nil {
			return err
		}
		_, err = e.w.FundPsbt(pkt, &scope, int32(a.Mc), acctNum(a.Acct), 1000, wallet.CoinSelectionLargest)
		got := "ok"
		if err != nil {
			got = "refused"
		}
		w.n++
		if got != st.Ret {
			w.add("psbt-refusal", what+" with inputs "+fmt.Sprint(sorted(a.Sel))+" (eligible: "+fmt.Sprint(sorted(a.Elig))+")", fmt.Sprintf("%s (%v)", got, err), st.Ret)
			return nil
		}
		if err == nil {
			var ops []wire.OutPoint
			for _, in := range pkt.UnsignedTx.TxIn {
				ops = append(ops, in.PreviousOutPoint)
			}
			if g := w.coinIDs(ops); fmt.Sprint(g) != fmt.Sprint(sorted(a.Sel)) {
				w.add("inputs", what+": inputs of the funded packet", g, sorted(a.Sel))
				break
			}
			// the wallet signs and finalises the packet: the extracted transaction has to verify
			// (ComputeInputScript, which FinalizePsbt uses, is documented for P2WKH / nested P2WKH and handles
			// P2TR; legacy P2PKH inputs are outside what the PSBT path supports - see DESIGN section 7)
			if st.Ret == "ok" && a.Scope != "bip44" {
				ferr := e.w.FinalizePsbt(&scope, acctNum(a.Acct), pkt)
				w.n++
				if ferr != nil {
					w.add("sig", what+": FinalizePsbt of the funded packet", ferr.Error(), "finalised")
					break
				}
				ftx, xerr := psbt.Extract(pkt)
				if xerr != nil {
					w.add("sig", what+": the finalised packet cannot be extracted", xerr.Error(), "a transaction")
					break
				}
				w.n++
				if verr := w.verifySigs(ftx); verr != nil {
					w.add("sig", what+": the finalised transaction does not verify under the standard script flags", verr.Error(), "valid")
				}
			}
		}
	case "DryRun":
		scope := scopeOf[a.Scope]
		// small amount: any single eligible coin can pay it
		min := int64(1 << 62)
		for _, c := range a.Elig {
			if v := w.outOf[c].Value; v < min {
				min = v
			}
		}
		// eligible coins by value, largest first
		vals := make([]int64, 0, len(a.Elig))
		for _, c := range a.Elig {
			vals = append(vals, w.outOf[c].Value)
		}
		sort.Slice(vals, func(i, j int) bool { return vals[i] > vals[j] })
		for try := 0; try < 4+len(vals); try++ {
			amount := min / 2
			if try >= 2 {
				amount = w.sumVal(a.Elig) - margin(9)
			}
			if try >= 4 {
				// tight requests: the k largest coins cover the outputs plus the fee assumed before
				// any input is known, but not the fee of k inputs, so the author has to come back for
				// more (the input source is asked a second time)
				k := try - 3
				if k >= len(vals) {
					break
				}
				var sum int64
				for _, v := range vals[:k] {
					sum += v
				}
				amount = sum - 100 // between the fee of a transaction without inputs (~73 sat) and with k inputs
			}
			outs := []*wire.TxOut{wire.NewTxOut(amount, w.foreign)}
			var strategy wallet.CoinSelectionStrategy = wallet.CoinSelectionRandom
			if try >= 4 {
				strategy = wallet.CoinSelectionLargest
			}
			atx, err := e.w.CreateSimpleTx(&scope, acctNum(a.Acct), outs, int32(a.Mc), 1000, strategy, true)
			w.n++
			what := fmt.Sprintf("CreateSimpleTx dry run, random selection (acct %d, %s, minconf %d)", a.Acct, a.Scope, a.Mc)
			if err != nil {
				w.add("eligibility", what+" result", err.Error(), "ok")
				break
			}
			var ops []wire.OutPoint
			seen := map[wire.OutPoint]bool{}
			for _, in := range atx.Tx.TxIn {
				if seen[in.PreviousOutPoint] {
					w.add("inputs", what+": the same output is spent twice", in.PreviousOutPoint.String(), "distinct")
				}
				seen[in.PreviousOutPoint] = true
				ops = append(ops, in.PreviousOutPoint)
			}
			if got := w.coinIDs(ops); !subset(got, a.Elig) {
				w.add("inputs", what+": spends an output that is not eligible", got, fmt.Sprintf("subset of %v", sorted(a.Elig)))
			}
		}
	case "CreateCS":
		scope, cscope := scopeOf[a.Scope], scopeOf[a.CScope]
		what := fmt.Sprintf("CreateSimpleTx(acct %d, %s, minconf %d) with change scope %s", a.Acct, a.Scope, a.Mc, a.CScope)
		min := int64(1 << 62)
		for _, c := range a.Elig {
			if v := w.outOf[c].Value; v < min {
				min = v
			}
		}
		amount := min / 2
		outs := []*wire.TxOut{wire.NewTxOut(amount, w.foreign)}
		atx, err := e.w.CreateSimpleTx(&scope, acctNum(a.Acct), outs, int32(a.Mc), 1000, wallet.CoinSelectionLargest, false,
			wallet.WithCustomChangeScope(&cscope))
		w.n++
		if err != nil {
			w.add("eligibility", what+" result", err.Error(), "ok")
			break
		}
		var ops []wire.OutPoint
		seen := map[wire.OutPoint]bool{}
		for _, in := range atx.Tx.TxIn {
			if seen[in.PreviousOutPoint] {
				w.add("inputs", what+": the same output is spent twice", in.PreviousOutPoint.String(), "distinct")
			}
			seen[in.PreviousOutPoint] = true
			ops = append(ops, in.PreviousOutPoint)
		}
		if got := w.coinIDs(ops); !subset(got, a.Elig) {
			w.add("inputs", what+": spends an output that is not eligible", got, fmt.Sprintf("subset of %v", sorted(a.Elig)))
			break
		}
		// the coins belong to an account the wallet holds keys for: every input is signed
		w.n++
		if err := w.verifySigs(atx.Tx); err != nil {
			w.add("sig", what+": signature does not verify under the standard script flags", err.Error(), "valid")
		}
		// the change pays an internal address of the same account number in the change scope
		for _, out := range atx.Tx.TxOut {
			if string(out.PkScript) == string(w.foreign) {
				continue
			}
			_, addrs, _, err := txscript.ExtractPkScriptAddrs(out.PkScript, e.params)
			if err != nil || len(addrs) != 1 {
				w.add("inputs", what+": unparsable change output", fmt.Sprint(err), "wallet change address")
				continue
			}
			ma, err := e.w.AddressInfo(addrs[0])
			if err != nil {
				w.add("inputs", what+": change does not pay a wallet address", err.Error(), "wallet change address")
			} else if !ma.Internal() || ma.InternalAccount() != uint32(chgAcct(a.Acct)) {
				w.add("inputs", what+": change address", fmt.Sprintf("internal=%v account=%d", ma.Internal(), ma.InternalAccount()),
					fmt.Sprintf("internal=true account=%d", chgAcct(a.Acct)))
			}
		}
	case "Restart":
		return w.restart()
	case "Resync":
		return w.resync()
	case "RestartRej", "ResyncRej":
		// the backend has evicted created transaction #n (and, with it, everything spending its change) and
		// rejects its re-broadcast for a reason the wallet has no special case for
		target := w.sendTx[a.N]
		if target == nil {
			return fmt.Errorf("RestartRej: unknown send %d", a.N)
		}
		th := target.TxHash()
		for _, k := range a.Forgotten {
			if tx := w.sendTx[k]; tx != nil {
				e.chain.DropFromMempool(tx.TxHash())
			}
		}
		e.chain.SendAnswer = func(tx *wire.MsgTx) error {
			if tx.TxHash() == th {
				return errors.New("mock backend: transaction rejected: policy rule the wallet does not know (code 64)")
			}
			return mockchain.ErrDefaultAnswer
		}
		var err error
		if st.Op == "ResyncRej" {
			err = w.resync()
		} else {
			err = w.restart()
		}
		e.chain.SendAnswer = nil
		return err
	default:
		return fmt.Errorf("unknown op %q", st.Op)
	}
	return nil
}

// restart stops and starts the wallet and waits for the re-broadcast.
func (w *spWorld) restart() error {
	e := w.e
	e.stop()
	e.chain.SendLog(true)
	if err := e.start(); err != nil {
		return err
	}
	if err := e.settle(); err != nil {
		return err
	}
	if err := e.awaitResend(); err != nil {
		w.add("resend", "no re-broadcast pass after the resynchronisation", err.Error(), "re-broadcast")
	}
	if err := e.w.Unlock(privPass, nil); err != nil {
		return err
	}
	return nil
}

// resync re-establishes the backend connection of the running wallet
// (ClientConnected) and waits for the re-broadcast that follows the
// resynchronisation; the wallet is neither stopped nor locked.
func (w *spWorld) resync() error {
	e := w.e
	if err := e.settle(); err != nil {
		return err
	}
	for len(e.resend) > 0 {
		<-e.resend
	}
	e.chain.SendLog(true)
	e.chain.Attach()
	if err := e.settle(); err != nil {
		return err
	}
	if err := e.awaitResend(); err != nil {
		w.add("resend", "no re-broadcast pass after the resynchronisation of the running wallet", err.Error(), "re-broadcast")
	}
	return nil
}

func (w *spWorld) observe(exp *spObs) {
	e := w.e
	if int(e.chain.Tip().Height) != initialTip+exp.Tip {
		w.add("harness", "tip", e.chain.Tip().Height, initialTip+exp.Tip)
		return
	}
	// spendable set
	res, err := e.w.ListUnspent(0, 9999999, "")
	w.n++
	if err != nil {
		w.add("balance", "ListUnspent", err.Error(), "ok")
	} else {
		var ops []wire.OutPoint
		for _, r := range res {
			h, _ := chainhash.NewHashFromStr(r.TxID)
			ops = append(ops, wire.OutPoint{Hash: *h, Index: r.Vout})
		}
		if got := w.coinIDs(ops); fmt.Sprint(got) != fmt.Sprint(sorted(exp.Spendable)) {
			w.add("balance", "spendable outputs (ListUnspent)", got, sorted(exp.Spendable))
		}
	}
	if len(exp.Bal) == 0 || len(exp.AcctBal) == 0 {
		w.add("harness", "the expectation carries no balances", len(exp.Bal), "minconf 0..Mat+1")
	}
	for mcs, cs := range exp.Bal {
		mc, _ := strconv.Atoi(mcs)
		bal, err := e.w.CalculateBalance(int32(mc))
		w.n++
		if err != nil {
			w.add("balance", fmt.Sprintf("CalculateBalance(%d)", mc), err.Error(), "ok")
		} else if int64(bal) != w.sumVal(cs) {
			w.add("balance", fmt.Sprintf("CalculateBalance(%d)", mc), int64(bal), fmt.Sprintf("%d (coins %v)", w.sumVal(cs), sorted(cs)))
		}
	}
	// per-account balances (any key scope)
	for as, ab := range exp.AcctBal {
		a, _ := strconv.Atoi(as)
		for mcs, cs := range ab.Spendable {
			mc, _ := strconv.Atoi(mcs)
			b, err := e.w.CalculateAccountBalances(acctNum(a), int32(mc))
			w.n++
			what := fmt.Sprintf("CalculateAccountBalances(account %d, minconf %d)", a, mc)
			if err != nil {
				w.add("balance", what, err.Error(), "ok")
				continue
			}
			got := fmt.Sprintf("total=%d spendable=%d immature=%d", int64(b.Total), int64(b.Spendable), int64(b.ImmatureReward))
			want := fmt.Sprintf("total=%d spendable=%d immature=%d", w.sumVal(ab.Total), w.sumVal(cs), w.sumVal(ab.Immature))
			if got != want {
				w.add("balance", what, got, want+fmt.Sprintf(" (coins %v / %v / %v)", sorted(ab.Total), sorted(cs), sorted(ab.Immature)))
			}
		}
	}
	// per key scope and account
	for sc, byAcct := range exp.ScopeBal {
		for mcs := range map[string]bool{"0": true, "1": true} {
			mc, _ := strconv.Atoi(mcs)
			res, err := e.w.AccountBalances(scopeOf[sc], int32(mc))
			w.n++
			what := fmt.Sprintf("AccountBalances(%s, minconf %d)", sc, mc)
			if err != nil {
				w.add("balance", what, err.Error(), "ok")
				continue
			}
			for as, byMc := range byAcct {
				a, _ := strconv.Atoi(as)
				var got int64 = -1
				for _, r := range res {
					if r.AccountNumber == acctNum(a) {
						got = int64(r.AccountBalance)
					}
				}
				if want := w.sumVal(byMc[mcs]); got != want {
					w.add("balance", fmt.Sprintf("%s: account %d", what, a), got, fmt.Sprintf("%d (coins %v)", want, sorted(byMc[mcs])))
				}
			}
		}
	}
	// the user's outpoint locks: exactly those the model holds
	isLocked := map[int]bool{}
	for _, c := range exp.Locked {
		isLocked[c] = true
	}
	for c, op := range w.opOf {
		w.n++
		if got := e.w.LockedOutpoint(op); got != isLocked[c] {
			w.add("state", fmt.Sprintf("LockedOutpoint(coin %d)", c), got, isLocked[c])
		}
	}
	// created transactions
	err = walletdb.View(e.db, func(tx walletdb.ReadTx) error {
		ns := tx.ReadBucket(txmgrNs)
		for i, s := range exp.Sends {
			stx := w.sendTx[i+1]
			if stx == nil {
				w.add("harness", "unknown send", i+1, nil)
				continue
			}
			h := stx.TxHash()
			d, err := e.w.TxStore.TxDetails(ns, &h)
			w.n++
			got := "absent"
			if err != nil {
				got = err.Error()
			} else if d != nil {
				got = fmt.Sprint(d.Block.Height)
			}
			want := "-1"
			if f, ok := s.Status.(float64); ok && f > 0 {
				want = fmt.Sprint(initialTip + int(f))
			} else if ok && f < 0 {
				want = "absent" // forgotten after a rejected re-broadcast
			}
			if got != want {
				w.add("state", fmt.Sprintf("created transaction #%d recorded at height", i+1), got, want)
			}
		}
		return nil
	})
	if err != nil {
		w.add("state", "view", err.Error(), nil)
	}
	w.observeHistory(exp)
	// leases
	ls, err := e.w.ListLeasedOutputs()
	w.n++
	if err == nil {
		var ops []wire.OutPoint
		for _, l := range ls {
			ops = append(ops, l.Outpoint)
		}
		var want []int
		for c, id := range exp.Leased {
			if id != 0 {
				want = append(want, c+1)
			}
		}
		if got := w.coinIDs(ops); fmt.Sprint(got) != fmt.Sprint(sorted(want)) {
			w.add("state", "leased outputs", got, sorted(want))
		}
	}
}

// checkResend is called after a Restart step: every still-unconfirmed
// created transaction must have been offered again, parents first.
func (w *spWorld) checkResend(exp *spObs) {
	e := w.e
	want := map[chainhash.Hash]int{}
	for _, n := range exp.UnconfSends {
		want[w.sendTx[n].TxHash()] = n
	}
	// still-unconfirmed incoming payments are wallet transactions as well ("each still-unconfirmed wallet
	// transaction is offered to the backend again"); they are numbered -c
	for c := 1; c <= w.nbase; c++ {
		if c-1 < len(exp.St) {
			if f, ok := exp.St[c-1].(float64); ok && f == 0 && w.txOf[c] != nil {
				want[w.txOf[c].TxHash()] = -c
			}
		}
	}
	deadline := time.Now().Add(5 * time.Second)
	var log []chainhash.Hash
	for {
		log = nil
		for _, c := range e.chain.SendLog(false) {
			log = append(log, c.Hash)
		}
		have := 0
		seen := map[chainhash.Hash]bool{}
		for _, h := range log {
			if _, ok := want[h]; ok && !seen[h] {
				seen[h] = true
				have++
			}
		}
		if have == len(want) || time.Now().After(deadline) {
			break
		}
		time.Sleep(5 * time.Millisecond)
	}
	pos := map[chainhash.Hash]int{}
	for i, h := range log {
		if _, ok := pos[h]; !ok {
			pos[h] = i
		}
	}
	w.n++
	for h, n := range want {
		if _, ok := pos[h]; !ok {
			what := fmt.Sprintf("unconfirmed created transaction #%d", n)
			if n < 0 {
				what = fmt.Sprintf("the unconfirmed incoming payment of coin %d", -n)
			}
			w.add("resend", what+" was not offered to the backend after the resynchronisation", len(log), "re-offered")
		}
	}
	// parents before children
	for h, n := range want {
		tx := w.sendTx[n]
		if n < 0 {
			continue // incoming payments spend nothing of the wallet's
		}
		for _, in := range tx.TxIn {
			if pn, ok := want[in.PreviousOutPoint.Hash]; ok {
				if pp, ok1 := pos[in.PreviousOutPoint.Hash]; ok1 {
					if cp, ok2 := pos[h]; ok2 && cp < pp {
						w.add("resend", fmt.Sprintf("transaction #%d was offered before its unconfirmed parent #%d", n, pn), cp, pp)
					}
				}
			}
		}
	}
}

// observeHistory compares the wallet's transaction listing (GetTransactions in
// both directions, ListAllTransactions) with the model: every known
// transaction exactly once, under the block that confirms it or as
// unconfirmed, with its own inputs (amount, account) and own outputs
// (account, branch); nothing else.  (C13, wallet-level pass.)
func (w *spWorld) observeHistory(exp *spObs) {
	e := w.e
	type want struct {
		name   string
		height int32 // -1 = unconfirmed
		tx     *wire.MsgTx
	}
	known := map[chainhash.Hash]*want{}
	stOf := func(c int) int {
		if c-1 < len(exp.St) {
			if f, ok := exp.St[c-1].(float64); ok {
				return int(f)
			}
		}
		return -1
	}
	for c := 1; c <= w.nbase; c++ {
		s := stOf(c)
		if s < 0 {
			continue
		}
		h := int32(-1)
		if s > 0 {
			h = int32(initialTip + s)
		}
		tx := w.txOf[c]
		known[tx.TxHash()] = &want{fmt.Sprintf("funding transaction of coin %d", c), h, tx}
	}
	for i, s := range exp.Sends {
		tx := w.sendTx[i+1]
		if tx == nil {
			continue
		}
		h := int32(-1)
		if f, ok := s.Status.(float64); ok && f > 0 {
			h = int32(initialTip + int(f))
		} else if ok && f < 0 {
			continue // forgotten
		}
		known[tx.TxHash()] = &want{fmt.Sprintf("created transaction #%d", i+1), h, tx}
	}
	describe := func(sum *wallet.TransactionSummary) string {
		var ins, outs []string
		for _, in := range sum.MyInputs {
			ins = append(ins, fmt.Sprintf("in%d:acct%d:%d", in.Index, in.PreviousAccount, int64(in.PreviousAmount)))
		}
		for _, o := range sum.MyOutputs {
			outs = append(outs, fmt.Sprintf("out%d:acct%d:internal=%v", o.Index, o.Account, o.Internal))
		}
		sort.Strings(ins)
		sort.Strings(outs)
		return fmt.Sprintf("%v %v fee=%d", ins, outs, int64(sum.Fee))
	}
	expect := func(k *want) string {
		var ins, outs []string
		var sumIn, sumOut int64
		all := true
		for i, in := range k.tx.TxIn {
			c, ok := w.coinOf[in.PreviousOutPoint]
			if !ok {
				all = false
				continue
			}
			acct := w.acctOf(c, exp)
			ins = append(ins, fmt.Sprintf("in%d:acct%d:%d", i, acctNum(acct), w.outOf[c].Value))
			sumIn += w.outOf[c].Value
		}
		for i, o := range k.tx.TxOut {
			sumOut += o.Value
			c, ok := w.coinOf[wire.OutPoint{Hash: k.tx.TxHash(), Index: uint32(i)}]
			if !ok {
				continue
			}
			outs = append(outs, fmt.Sprintf("out%d:acct%d:internal=%v", i, acctNum(w.acctOf(c, exp)), w.isChangeCoin(c)))
		}
		sort.Strings(ins)
		sort.Strings(outs)
		fee := int64(0)
		if all && len(k.tx.TxIn) > 0 && len(ins) == len(k.tx.TxIn) {
			fee = sumIn - sumOut
		}
		return fmt.Sprintf("%v %v fee=%d", ins, outs, fee)
	}
	for dir, rng := range [][2]int32{{0, -1}, {-1, 0}} {
		name := []string{"GetTransactions(0..unmined)", "GetTransactions(unmined..0)"}[dir]
		res, err := e.w.GetTransactions(wallet.NewBlockIdentifierFromHeight(rng[0]), wallet.NewBlockIdentifierFromHeight(rng[1]), "", nil)
		w.n++
		if err != nil {
			w.add("history", name, err.Error(), "ok")
			continue
		}
		seen := map[chainhash.Hash]int{}
		visit := func(sum *wallet.TransactionSummary, height int32) {
			seen[*sum.Hash]++
			k := known[*sum.Hash]
			if k == nil {
				if height >= 0 && height <= int32(initialTip) {
					return // set-up of the environment
				}
				w.add("history", name+": lists a transaction the wallet should not know", sum.Hash.String(), "absent")
				return
			}
			if height != k.height {
				w.add("history", name+": "+k.name+" listed at height", height, k.height)
			}
			if got, wantS := describe(sum), expect(k); got != wantS {
				w.add("history", name+": details of "+k.name, got, wantS)
			}
		}
		last := int32(-2)
		for bi := range res.MinedTransactions {
			b := &res.MinedTransactions[bi]
			if bi > 0 {
				if (dir == 0 && b.Height <= last) || (dir == 1 && b.Height >= last) {
					w.add("history", name+": block order", fmt.Sprint(last, " then ", b.Height), "monotone")
				}
			}
			last = b.Height
			for ti := range b.Transactions {
				visit(&b.Transactions[ti], b.Height)
			}
		}
		for ti := range res.UnminedTransactions {
			visit(&res.UnminedTransactions[ti], -1)
		}
		for h, k := range known {
			if seen[h] != 1 {
				w.add("history", name+": "+k.name+" listed", fmt.Sprintf("%d times", seen[h]), "once")
			}
		}
	}
	// the JSON-style listing names the same set of transactions
	lst, err := e.w.ListAllTransactions()
	w.n++
	if err != nil {
		w.add("history", "ListAllTransactions", err.Error(), "ok")
		return
	}
	names := map[string]bool{}
	recv := map[string]int{} // "txid:vout" -> number of receive-type entries
	for _, r := range lst {
		names[r.TxID] = true
		switch r.Category {
		case "receive", "generate", "immature":
			recv[fmt.Sprintf("%s:%d", r.TxID, r.Vout)]++
		}
	}
	for h, k := range known {
		if !names[h.String()] {
			w.add("history", "ListAllTransactions: "+k.name, "missing", "listed")
			continue
		}
		// every wallet credit that is not change has exactly one receive-type entry
		for i := range k.tx.TxOut {
			c, ok := w.coinOf[wire.OutPoint{Hash: h, Index: uint32(i)}]
			if !ok || w.isChangeCoin(c) {
				continue
			}
			w.n++
			if n := recv[fmt.Sprintf("%s:%d", h, i)]; n != 1 {
				w.add("history", fmt.Sprintf("ListAllTransactions: receive entries for output %d (coin %d) of %s", i, c, k.name), n, 1)
			}
		}
	}
}

// acctOf returns the account a coin belongs to (change coins: the account of the request).
func (w *spWorld) acctOf(c int, exp *spObs) int {
	if c <= w.nbase {
		return int(baseAttrs[c].acct)
	}
	if !w.isChangeCoin(c) {
		return 0 // self-payments go to account 0
	}
	return w.sendAcct[c-w.nbase]
}
