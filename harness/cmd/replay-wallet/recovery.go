package main

import (
	"crypto/sha256"
	"encoding/json"
	"fmt"
	"sort"
	"time"

	"github.com/btcsuite/btcd/btcutil"
	"github.com/btcsuite/btcd/btcutil/hdkeychain"
	"github.com/btcsuite/btcd/chaincfg/chainhash"
	"github.com/btcsuite/btcd/txscript"
	"github.com/btcsuite/btcd/wire"
	"github.com/btcsuite/btcwallet/wallet"
	"github.com/btcsuite/btcwallet/walletdb"

	"verif/harness/internal/common"
	"verif/harness/internal/mockchain"
	"verif/harness/internal/oracle"
)

// ---- C16 (a): RecoveryBranch.tla ----

type rbStep struct {
	Op          string `json:"op"`
	Cur         int    `json:"cur"`
	Delta       int    `json:"delta"`
	Invalid     []int  `json:"invalid"`
	Horizon     int    `json:"horizon"`
	NextUnfound int    `json:"nextUnfound"`
	NInv        int    `json:"ninv"`
	I           int    `json:"i"`
}

type rbTrace struct {
	W       int      `json:"w"`
	Invalid []int    `json:"invalid"`
	Steps   []rbStep `json:"steps"`
}

func replayBranch(idx int, line []byte, rep *common.Report) {
	var tr rbTrace
	if err := json.Unmarshal(line, &tr); err != nil {
		rep.AddError("trace %d: %v", idx, err)
		return
	}
	invalid := map[int]bool{}
	for _, i := range tr.Invalid {
		invalid[i] = true
	}
	brs := wallet.NewBranchRecoveryState(uint32(tr.W))
	n := 0
	report := func(step int, what string, obs, exp interface{}) {
		m := common.Mismatch{Prop: "C16", Sig: "recovery:branch:" + tr.Steps[step].Op, Trace: idx, Step: step, What: what, Observed: obs, Expected: exp}
		cut := tr
		cut.Steps = tr.Steps[:step+1]
		m.Behav, _ = json.Marshal(map[string]interface{}{"branch": cut})
		rep.AddMismatch(m)
	}
	dummy, _ := btcutil.NewAddressPubKeyHash(make([]byte, 20), testParams(2))
	for si, st := range tr.Steps {
		switch st.Op {
		case "Expand":
			cur, delta := brs.ExtendHorizon()
			n++
			if int(cur) != st.Cur || int(delta) != st.Delta {
				report(si, "ExtendHorizon()", fmt.Sprintf("horizon=%d delta=%d", cur, delta), fmt.Sprintf("horizon=%d delta=%d", st.Cur, st.Delta))
				return
			}
			// the caller's derivation loop (expandScopeHorizons)
			var marks []int
			count, child := uint32(0), cur
			for count < delta {
				if invalid[int(child)] {
					brs.MarkInvalidChild(child)
					marks = append(marks, int(child))
					child++
					continue
				}
				brs.AddAddr(child, dummy)
				child++
				count++
			}
			if fmt.Sprint(marks) != fmt.Sprint(st.Invalid) && !(len(marks) == 0 && len(st.Invalid) == 0) {
				report(si, "children marked invalid during expansion", marks, st.Invalid)
			}
			// reading the horizon back: a second call must not need to extend
			h2, d2 := brs.ExtendHorizon()
			n++
			if int(h2) != st.Horizon || d2 != 0 {
				report(si, "horizon after expansion (second ExtendHorizon)", fmt.Sprintf("horizon=%d delta=%d", h2, d2), fmt.Sprintf("horizon=%d delta=0", st.Horizon))
			}
		case "ReportFound":
			brs.ReportFound(uint32(st.I))
		}
		n++
		if int(brs.NextUnfound()) != st.NextUnfound {
			report(si, "NextUnfound()", brs.NextUnfound(), st.NextUnfound)
		}
		if int(brs.NumInvalidInHorizon()) != st.NInv {
			report(si, "NumInvalidInHorizon()", brs.NumInvalidInHorizon(), st.NInv)
		}
	}
	rep.Count(1, len(tr.Steps), n)
	if len(tr.Invalid) > 0 {
		rep.Nontriv(fmt.Sprintf("branch|%v|%d", tr.Invalid, len(tr.Steps)))
	}
	if len(tr.Steps) >= 3 {
		rep.Sample(map[string]interface{}{"branch": tr})
	}
}

// ---- C16 (c): Birthday.tla ----

type bdCase struct {
	Ts     []int `json:"ts"`
	Bday   int   `json:"bday"`
	Result int   `json:"result"`
}

type fakeConn struct {
	ts   []int
	base time.Time
}

func (f *fakeConn) hash(h int64) *chainhash.Hash {
	x := chainhash.Hash(sha256.Sum256([]byte(fmt.Sprintf("bd-block-%d", h))))
	return &x
}
func (f *fakeConn) GetBestBlock() (*chainhash.Hash, int32, error) {
	n := int64(len(f.ts) - 1)
	return f.hash(n), int32(n), nil
}
func (f *fakeConn) GetBlockHash(h int64) (*chainhash.Hash, error) {
	if h < 0 || int(h) >= len(f.ts) {
		return nil, fmt.Errorf("height %d out of range", h)
	}
	return f.hash(h), nil
}
func (f *fakeConn) GetBlockHeader(hash *chainhash.Hash) (*wire.BlockHeader, error) {
	for h := range f.ts {
		if *f.hash(int64(h)) == *hash {
			return &wire.BlockHeader{Timestamp: f.base.Add(time.Duration(f.ts[h]) * time.Hour)}, nil
		}
	}
	return nil, fmt.Errorf("unknown block %v", hash)
}

func replayBirthday(idx int, line []byte, rep *common.Report) {
	var c bdCase
	if err := json.Unmarshal(line, &c); err != nil {
		rep.AddError("case %d: %v", idx, err)
		return
	}
	base := time.Unix(1_400_000_000, 0)
	conn := &fakeConn{ts: c.Ts, base: base}
	bs, err := wallet.VerifLocateBirthdayBlock(conn, base.Add(time.Duration(c.Bday)*time.Hour))
	got := "error"
	if err == nil {
		got = fmt.Sprint(bs.Height)
	} else {
		got = err.Error()
	}
	if got != fmt.Sprint(c.Result) {
		m := common.Mismatch{Prop: "C16", Sig: "recovery:birthday", Trace: idx, What: "locateBirthdayBlock result height", Observed: got, Expected: c.Result}
		m.Behav, _ = json.Marshal(map[string]interface{}{"birthday": c})
		rep.AddMismatch(m)
	}
	// the property itself, independent of the transcription
	first := len(c.Ts)
	for h, t := range c.Ts {
		if t >= c.Bday+46 {
			first = h
			break
		}
	}
	if err == nil && int(bs.Height) > first {
		m := common.Mismatch{Prop: "C16", Sig: "recovery:birthday-late", Trace: idx, What: "scan start block is later than the first block that could pay the wallet",
			Observed: bs.Height, Expected: fmt.Sprintf("<= %d", first)}
		m.Behav, _ = json.Marshal(map[string]interface{}{"birthday": c})
		rep.AddMismatch(m)
	}
	rep.Count(1, 1, 2)
	if first < len(c.Ts) {
		rep.Nontriv(fmt.Sprintf("bd|%v|%d", c.Ts, c.Bday))
	}
	if idx%5000 == 7 {
		rep.Sample(map[string]interface{}{"birthday": c})
	}
}

// ---- C16 (b): RecoveryScan.tla ----

type rsStep struct {
	Op     string          `json:"op"`
	Pays   [][]interface{} `json:"pays"`
	Spends [][]interface{} `json:"spends"`
	Exp    json.RawMessage `json:"exp"`
}

type rsObs struct {
	NBlocks int             `json:"nblocks"`
	Used    [][]interface{} `json:"used"`
	Next    [][]interface{} `json:"next"`
	Unspent [][]interface{} `json:"unspent"`
	NTx     int             `json:"ntx"`
}

type rsTrace struct {
	W        int      `json:"w"`
	Unlocked bool     `json:"unlocked"`
	Steps    []rsStep `json:"steps"`
}

type rsAddr struct {
	scope  string
	branch int
	index  int
}

func toAddr(x []interface{}) rsAddr {
	return rsAddr{x[0].(string), int(x[1].(float64)), int(x[2].(float64))}
}

type rsWorld struct {
	e       *env
	master  *hdkeychain.ExtendedKey
	outs    map[string]wire.OutPoint // "block/scope/branch/index" -> outpoint
	vals    map[wire.OutPoint]int64
	txs     []*wire.MsgTx // one per block (nil for empty blocks)
	blocks  []*mockchain.Block
	nextVal int64
}

func outKey(b int, a rsAddr) string { return fmt.Sprintf("%d/%s/%d/%d", b, a.scope, a.branch, a.index) }

func (w *rsWorld) address(a rsAddr) (btcutil.Address, error) {
	sc := oracle.Scopes[a.scope]
	ak, err := oracle.AccountKey(w.master, sc, 0)
	if err != nil {
		return nil, err
	}
	ck, err := oracle.Child(ak, uint32(a.branch), uint32(a.index))
	if err != nil {
		return nil, err
	}
	pub, err := ck.ECPubKey()
	if err != nil {
		return nil, err
	}
	return oracle.Encode(oracle.TypeFor(sc, uint32(a.branch), "", ""), pub, w.e.params)
}

func replayScan(idx int, line []byte, seed int, root string, rep *common.Report) {
	var tr rsTrace
	if err := json.Unmarshal(line, &tr); err != nil {
		rep.AddError("trace %d: %v", idx, err)
		return
	}
	e, err := newEnv(root, idx, seed, testParams(2), uint32(tr.W), true)
	if err != nil {
		rep.AddError("trace %d: setup: %v", idx, err)
		return
	}
	defer e.close()
	w := &rsWorld{e: e, outs: map[string]wire.OutPoint{}, vals: map[wire.OutPoint]int64{}, nextVal: 100_000}
	if w.master, err = oracle.Master(e.seed, e.params); err != nil {
		rep.AddError("trace %d: oracle: %v", idx, err)
		return
	}
	report := func(step int, class, what string, obs, exp interface{}) {
		m := common.Mismatch{Prop: "C16", Sig: fmt.Sprintf("recovery:scan:%s", class), Trace: idx, Step: step, What: what, Observed: obs, Expected: exp}
		cut := tr
		cut.Steps = tr.Steps[:step+1]
		m.Behav, _ = json.Marshal(map[string]interface{}{"scan": cut})
		rep.AddMismatch(m)
	}
	n := 0
	for si := range tr.Steps {
		st := &tr.Steps[si]
		switch st.Op {
		case "AddBlock":
			if e.running {
				e.stop()
			}
			tx := wire.NewMsgTx(2)
			for _, s := range st.Spends {
				b := int(s[0].(float64))
				a := toAddr(s[1].([]interface{}))
				op, ok := w.outs[outKey(b, a)]
				if !ok {
					rep.AddError("trace %d: spend of unknown output %v", idx, s)
					return
				}
				tx.AddTxIn(wire.NewTxIn(&op, []byte{0x51}, nil))
			}
			if len(st.Spends) == 0 {
				h := sha256.Sum256([]byte(fmt.Sprintf("rs-foreign-%d-%d-%d", idx, seed, si)))
				tx.AddTxIn(wire.NewTxIn(wire.NewOutPoint((*chainhash.Hash)(&h), 0), []byte{0x51}, nil))
			}
			var pays []rsAddr
			for _, p := range st.Pays {
				pays = append(pays, toAddr(p))
			}
			sort.Slice(pays, func(i, j int) bool { return fmt.Sprint(pays[i]) < fmt.Sprint(pays[j]) })
			for _, a := range pays {
				addr, err := w.address(a)
				if err != nil {
					rep.AddError("trace %d: oracle address: %v", idx, err)
					return
				}
				script, _ := txscript.PayToAddrScript(addr)
				w.nextVal += 1000
				tx.AddTxOut(wire.NewTxOut(w.nextVal, script))
			}
			if len(pays) == 0 {
				// a spend with a foreign output only
				tx.AddTxOut(wire.NewTxOut(1000, []byte{0x51}))
			}
			var blk *mockchain.Block
			if len(st.Pays) == 0 && len(st.Spends) == 0 {
				blk = e.chain.Extend(nil)
				w.txs = append(w.txs, nil)
			} else {
				blk = e.chain.Extend([]*wire.MsgTx{tx})
				w.txs = append(w.txs, tx)
				h := tx.TxHash()
				for i, a := range pays {
					op := wire.OutPoint{Hash: h, Index: uint32(i)}
					w.outs[outKey(len(w.txs), a)] = op
					w.vals[op] = tx.TxOut[i].Value
				}
			}
			w.blocks = append(w.blocks, blk)
		case "Recover":
			var exp rsObs
			if err := json.Unmarshal(st.Exp, &exp); err != nil {
				rep.AddError("trace %d: exp: %v", idx, err)
				return
			}
			if err := e.startWith(func() error {
				if tr.Unlocked {
					return e.w.Unlock(privPass, nil)
				}
				return nil
			}); err != nil {
				rep.AddError("trace %d: start: %v", idx, err)
				return
			}
			if err := e.settle(); err != nil {
				report(si, "liveness", "recovery did not finish", err.Error(), "synchronised")
				return
			}
			if err := e.awaitResend(); err != nil {
				report(si, "liveness", "recovery did not finish", err.Error(), "synchronised")
				return
			}
			n += w.check(&exp, func(class, what string, obs, ex interface{}) { report(si, class, what, obs, ex) })
			rep.Nontriv(fmt.Sprintf("scan|%d|%v|%v|%v", tr.W, tr.Unlocked, exp.Used, exp.Unspent))
		}
	}
	rep.Count(1, len(tr.Steps), n)
	if len(tr.Steps) >= 3 {
		var ss []string
		for _, st := range tr.Steps {
			ss = append(ss, fmt.Sprintf("%s pays=%v spends=%v", st.Op, st.Pays, st.Spends))
		}
		rep.Sample(map[string]interface{}{"window": tr.W, "unlocked": tr.Unlocked, "steps": ss})
	}
}

func (w *rsWorld) check(exp *rsObs, add func(class, what string, obs, exp interface{})) int {
	e := w.e
	n := 0
	tip := e.chain.Tip()
	if st := e.w.Manager.SyncedTo(); st.Height != tip.Height || st.Hash != tip.Hash {
		add("sync", "synced-to block after recovery", fmt.Sprintf("%d %v", st.Height, st.Hash), fmt.Sprintf("%d %v", tip.Height, tip.Hash))
	}
	// every used address discovered and flagged used
	for _, u := range exp.Used {
		a := toAddr(u)
		addr, err := w.address(a)
		if err != nil {
			continue
		}
		n++
		ma, err := e.w.AddressInfo(addr)
		if err != nil {
			add("address", fmt.Sprintf("used address %v not discovered", a), err.Error(), "known to the wallet")
			continue
		}
		err = walletdb.View(e.db, func(tx walletdb.ReadTx) error {
			if !ma.Used(tx.ReadBucket(addrmgrNs)) {
				add("address", fmt.Sprintf("used address %v not marked used", a), false, true)
			}
			return nil
		})
		if err != nil {
			add("address", "view", err.Error(), nil)
		}
		if ma.Internal() != (a.branch == 1) || ma.InternalAccount() != 0 {
			add("address", fmt.Sprintf("metadata of recovered address %v", a), fmt.Sprintf("internal=%v account=%d", ma.Internal(), ma.InternalAccount()),
				fmt.Sprintf("internal=%v account=0", a.branch == 1))
		}
	}
	// next index of every branch above the highest used one
	for _, nx := range exp.Next {
		a := toAddr(nx)
		props, err := e.w.AccountProperties(scopeOf[a.scope], 0)
		n++
		if err != nil {
			add("index", "AccountProperties", err.Error(), "ok")
			continue
		}
		got := props.ExternalKeyCount
		if a.branch == 1 {
			got = props.InternalKeyCount
		}
		if int(got) < a.index {
			add("index", fmt.Sprintf("next index of %s branch %d", a.scope, a.branch), got, fmt.Sprintf(">= %d", a.index))
		}
	}
	// unspent outputs and balance
	var want []string
	var sum int64
	for _, u := range exp.Unspent {
		b := int(u[0].(float64))
		a := toAddr(u[1].([]interface{}))
		op := w.outs[outKey(b, a)]
		want = append(want, op.String())
		sum += w.vals[op]
	}
	sort.Strings(want)
	res, err := e.w.ListUnspent(0, 9999999, "")
	n++
	if err != nil {
		add("balance", "ListUnspent", err.Error(), "ok")
	} else {
		var got []string
		for _, r := range res {
			got = append(got, fmt.Sprintf("%s:%d", r.TxID, r.Vout))
		}
		sort.Strings(got)
		if fmt.Sprint(got) != fmt.Sprint(want) {
			add("balance", "unspent outputs after recovery", got, want)
		}
	}
	bal, err := e.w.CalculateBalance(1)
	n++
	if err != nil || int64(bal) != sum {
		add("balance", "CalculateBalance(1) after recovery", fmt.Sprint(int64(bal), err), sum)
	}
	// every paying / spending transaction recorded in its block
	err = walletdb.View(e.db, func(tx walletdb.ReadTx) error {
		ns := tx.ReadBucket(txmgrNs)
		for i, t := range w.txs {
			if t == nil {
				continue
			}
			h := t.TxHash()
			d, err := e.w.TxStore.TxDetails(ns, &h)
			n++
			if err != nil || d == nil {
				add("tx", fmt.Sprintf("transaction of block %d not recorded", i+1), fmt.Sprint(err), "recorded")
				continue
			}
			if d.Block.Height != w.blocks[i].Height || d.Block.Hash != w.blocks[i].Hash {
				add("tx", fmt.Sprintf("transaction of block %d recorded in", i+1), fmt.Sprintf("%d %v", d.Block.Height, d.Block.Hash),
					fmt.Sprintf("%d %v", w.blocks[i].Height, w.blocks[i].Hash))
			}
		}
		return nil
	})
	if err != nil {
		add("tx", "view", err.Error(), nil)
	}
	return n
}
