package main

import (
	"crypto/sha256"
	"encoding/json"
	"fmt"
	"path/filepath"
	"sort"
	"strings"
	"time"

	"github.com/btcsuite/btcd/btcec/v2"
	"github.com/btcsuite/btcd/btcutil"
	"github.com/btcsuite/btcd/btcutil/hdkeychain"
	"github.com/btcsuite/btcd/txscript"
	"github.com/btcsuite/btcwallet/waddrmgr"
	"github.com/btcsuite/btcwallet/walletdb"

	"verif/harness/internal/common"
	"verif/harness/internal/oracle"
)

// ---- AddrMgr.tla behaviours through the wallet's own account / address API (C08, C03) ----
//
// NextAddr      -> Wallet.NewAddress / NewChangeAddress
// NewAccount    -> Wallet.NextAccount
// ImportXpub    -> Wallet.ImportAccount (commit) / Wallet.ImportAccountDryRun (rollback; alternately a dry
//                  run that succeeds and one that fails after the account was written inside the transaction)
// Rename        -> Wallet.RenameAccount
// Lock / Unlock -> Wallet.Lock / Wallet.Unlock
// Lookup        -> Wallet.AddressInfo
// Restart       -> the wallet is stopped, closed and opened again
//
// After every step that carries an expectation the account view (AccountProperties, AccountNumber,
// AccountName) of the running wallet AND of a manager opened on a copy of the database file is compared
// with the model.

type awStep struct {
	Op  string          `json:"op"`
	A   json.RawMessage `json:"a"`
	Ret string          `json:"ret"`
	Exp json.RawMessage `json:"exp"`
}

type awArgs struct {
	S      string `json:"s"`
	A      int    `json:"a"`
	B      int    `json:"b"`
	I      int    `json:"i"`
	N      int    `json:"n"`
	Oc     string `json:"oc"`
	First  int    `json:"first"`
	Name   string `json:"name"`
	Num    int    `json:"num"`
	P      string `json:"p"`
	ID     string `json:"id"`
	PubOld string `json:"pubold"`
	PubNew string `json:"pubnew"`
	Old    string `json:"old"`
	New    string `json:"new"`
}

type awAcct struct {
	Kind string `json:"kind"`
	Name string `json:"name"`
	Ext  int    `json:"ext"`
	Int  int    `json:"int"`
}

type awObs struct {
	Pw     string              `json:"pw"`
	PubPw  string              `json:"pubpw"`
	Imp    []string            `json:"imp"`
	Locked bool                `json:"locked"`
	Accts  map[string][]awAcct `json:"accts"`
}

type awTrace struct {
	Steps []awStep        `json:"steps"`
	Exp   json.RawMessage `json:"exp"`
}

var awOwns = map[string]map[string]bool{
	"C08": {"view": true, "ret": true},
	"C03": {"issue": true, "ret": true},
	"C05": {"ret-lock": true, "priv-leak": true}, // what Unlock / ChangePassphrases answer; private material accepted as public
}

// the model's passphrase names
func awPriv(name string) []byte {
	if name == "p1" {
		return privPass
	}
	return []byte("verif-private-pass-" + name)
}

func awPub(name string) []byte {
	if name == "pub1" {
		return pubPass
	}
	return []byte("verif-public-pass-" + name)
}

var awAddrType = map[string]waddrmgr.AddressType{"bip84": waddrmgr.WitnessPubKey, "bip86": waddrmgr.TaprootPubKey,
	"bip49": waddrmgr.NestedWitnessPubKey}

type awWorld struct {
	e      *env
	prop   string
	master *hdkeychain.ExtendedKey
	xpubs  map[string]*hdkeychain.ExtendedKey // scope/number -> imported account key
	kinds  map[string]string                  // scope/number -> "hd" | "xpub"
	nimp   int
	ndry   int
	npub   int
	idx    int
	pub    []byte // current public passphrase
	silent bool   // the behaviour left what the model describes (by design of the harness, not a difference)
	diffs  [][4]interface{}
	n      int
}

func (w *awWorld) add(class, what string, obs, exp interface{}) {
	if class != "harness" && !awOwns[w.prop][class] {
		return
	}
	w.diffs = append(w.diffs, [4]interface{}{class, what, obs, exp})
}

func awClass(err error) string {
	if err == nil {
		return "ok"
	}
	switch {
	case waddrmgr.IsError(err, waddrmgr.ErrLocked):
		return "locked"
	case waddrmgr.IsError(err, waddrmgr.ErrWatchingOnly):
		return "watchonly"
	case waddrmgr.IsError(err, waddrmgr.ErrDuplicateAccount):
		return "duplicate"
	case waddrmgr.IsError(err, waddrmgr.ErrWrongPassphrase):
		return "wrongpass"
	}
	return "error:" + err.Error()
}

// foreignXpub returns a fresh account-level extended public key (somebody else's account).
func (w *awWorld) foreignXpub(tag string) (*hdkeychain.ExtendedKey, error) {
	fs := sha256.Sum256([]byte("aw-foreign-account-" + tag))
	k, err := hdkeychain.NewMaster(fs[:], w.e.params)
	if err != nil {
		return nil, err
	}
	for _, ix := range []uint32{hdkeychain.HardenedKeyStart + 84, hdkeychain.HardenedKeyStart + 1, hdkeychain.HardenedKeyStart + 3} {
		if k, err = k.Derive(ix); err != nil {
			return nil, err
		}
	}
	return k.Neuter()
}

// foreignXprvPublicVersion returns the PRIVATE account key of foreignXpub(tag) carrying the network's public version.
func (w *awWorld) foreignXprvPublicVersion(tag string) (*hdkeychain.ExtendedKey, error) {
	fs := sha256.Sum256([]byte("aw-foreign-account-" + tag))
	k, err := hdkeychain.NewMaster(fs[:], w.e.params)
	if err != nil {
		return nil, err
	}
	for _, ix := range []uint32{hdkeychain.HardenedKeyStart + 84, hdkeychain.HardenedKeyStart + 1, hdkeychain.HardenedKeyStart + 3} {
		if k, err = k.Derive(ix); err != nil {
			return nil, err
		}
	}
	return k.CloneWithVersion(w.e.params.HDPublicKeyID[:])
}

func (w *awWorld) expectAddr(s string, a, b, i int) (btcutil.Address, error) {
	sc := oracle.Scopes[s]
	var ak *hdkeychain.ExtendedKey
	var err error
	if w.kinds[fmt.Sprintf("%s/%d", s, a)] == "xpub" {
		ak = w.xpubs[fmt.Sprintf("%s/%d", s, a)]
	} else {
		ak, err = oracle.AccountKey(w.master, sc, uint32(a))
		if err != nil {
			return nil, err
		}
	}
	ck, err := oracle.Child(ak, uint32(b), uint32(i))
	if err != nil {
		return nil, err
	}
	pub, err := ck.ECPubKey()
	if err != nil {
		return nil, err
	}
	return oracle.Encode(oracle.TypeFor(sc, uint32(b), "", ""), pub, w.e.params)
}

func replayAddrWallet(idx int, line []byte, prop string, seed int, root string, rep *common.Report) {
	var tr awTrace
	if err := json.Unmarshal(line, &tr); err != nil {
		rep.AddError("trace %d: %v", idx, err)
		return
	}
	e, err := newEnv(root, idx, seed, testParams(2), 0, true)
	if err != nil {
		rep.AddError("trace %d: setup: %v", idx, err)
		return
	}
	defer e.close()
	w := &awWorld{e: e, prop: prop, idx: idx, pub: pubPass, xpubs: map[string]*hdkeychain.ExtendedKey{}, kinds: map[string]string{}}
	if w.master, err = hdkeychain.NewMaster(e.seed, e.params); err != nil {
		rep.AddError("trace %d: %v", idx, err)
		return
	}
	if err := e.start(); err != nil {
		rep.AddError("trace %d: start: %v", idx, err)
		return
	}
	if err := e.settle(); err != nil {
		rep.AddError("trace %d: initial sync: %v", idx, err)
		return
	}
	report := func(step int, d [4]interface{}) {
		last := "init"
		if step >= 0 && step < len(tr.Steps) {
			last = tr.Steps[step].Op
			var a awArgs
			json.Unmarshal(tr.Steps[step].A, &a)
			if a.Oc == "rollback" {
				last += "/dryrun"
			}
		}
		what := d[1].(string)
		sigWhat := what
		if k := strings.Index(sigWhat, "("); k > 0 {
			sigWhat = sigWhat[:k]
		}
		m := common.Mismatch{Prop: prop, Sig: fmt.Sprintf("addrwallet:%s:%s:%s", d[0], last, sigWhat), Trace: idx, Step: step,
			What: what, Observed: d[2], Expected: d[3]}
		cut := tr
		if step >= 0 && step+1 < len(tr.Steps) {
			cut.Steps = tr.Steps[:step+1]
		}
		m.Behav, _ = json.Marshal(cut)
		rep.AddMismatch(m)
	}
	var lastExp *awObs
	stopped := false
	for si := range tr.Steps {
		st := &tr.Steps[si]
		var a awArgs
		if len(st.A) > 0 && st.A[0] == '{' {
			if err := json.Unmarshal(st.A, &a); err != nil {
				rep.AddError("trace %d step %d: arguments do not decode: %v", idx, si, err)
				return
			}
		}
		w.diffs = nil
		ret, err := w.apply(st, &a, si)
		if err != nil {
			rep.AddError("trace %d step %d (%s): %v", idx, si, st.Op, err)
			return
		}
		diverged := false
		refusal := func(x string) bool { return x == "locked" || x == "watchonly" }
		if ret != st.Ret && !(refusal(ret) && refusal(st.Ret)) {
			class := "ret"
			if st.Op == "Unlock" || st.Op == "ChangeBoth" || refusal(ret) || refusal(st.Ret) {
				class = "ret-lock"
			}
			w.add(class, fmt.Sprintf("%s result", st.Op), ret, fmt.Sprintf("%s for %s", st.Ret, string(st.A)))
			diverged = true
		}
		var exp *awObs
		var derr error
		if len(st.Exp) > 0 && st.Exp[0] == '{' {
			exp = new(awObs)
			derr = json.Unmarshal(st.Exp, exp)
		} else if si == len(tr.Steps)-1 && len(tr.Exp) > 0 && tr.Exp[0] == '{' {
			exp = new(awObs)
			derr = json.Unmarshal(tr.Exp, exp)
		}
		if derr != nil {
			rep.AddError("trace %d step %d: expectation does not decode: %v", idx, si, derr)
			return
		}
		if exp != nil {
			lastExp = exp
		}
		if w.silent {
			for _, d := range w.diffs {
				report(si, d)
			}
			stopped = true
			break
		}
		if exp != nil && !diverged {
			if len(exp.Accts) == 0 {
				rep.AddError("trace %d step %d: the expectation carries no accounts", idx, si)
				return
			}
			w.view(exp)
			rep.Nontriv(fmt.Sprintf("%s|%v", st.Op+string(st.A), exp.Accts))
		}
		for _, d := range w.diffs {
			if d[0].(string) == "harness" {
				rep.AddError("trace %d step %d: %v %v %v", idx, si, d[1], d[2], d[3])
				return
			}
			report(si, d)
		}
		if diverged || len(w.diffs) > 0 {
			rep.Inc("diverged_behaviours", 1)
			stopped = true
			break
		}
	}
	// final probes (C05): whatever happened, after a lock exactly the current private passphrase unlocks, and a
	// wallet reopened with the current public passphrase opens
	if lastExp != nil && !stopped && awOwns[prop]["ret-lock"] {
		w.diffs = nil
		e.w.Lock()
		deadline := time.Now().Add(5 * time.Second)
		for !e.w.Locked() && time.Now().Before(deadline) {
			time.Sleep(200 * time.Microsecond)
		}
		for _, p := range []string{"p1", "p2"} {
			err := e.w.Unlock(awPriv(p), nil)
			w.n++
			want := "wrongpass"
			if p == lastExp.Pw {
				want = "ok"
			}
			if got := awClass(err); got != want {
				w.add("ret-lock", fmt.Sprintf("final probe: Unlock(%s) after a lock (current private passphrase: %s)", p, lastExp.Pw), got, want)
			}
			if err == nil {
				e.w.Lock()
				for !e.w.Locked() && time.Now().Before(deadline) {
					time.Sleep(200 * time.Microsecond)
				}
			}
		}
		for _, d := range w.diffs {
			report(len(tr.Steps)-1, d)
		}
	}
	rep.Count(1, len(tr.Steps), w.n)
	if len(tr.Steps) >= 5 {
		var ss []string
		for _, st := range tr.Steps {
			ss = append(ss, st.Op+string(st.A)+"->"+st.Ret)
		}
		rep.Sample(ss)
	}
}

func (w *awWorld) apply(st *awStep, a *awArgs, si int) (string, error) {
	e := w.e
	scope := scopeOf[a.S]
	switch st.Op {
	case "NextAddr":
		if a.Oc != "commit" {
			return "", fmt.Errorf("harness: NextAddr with outcome %q has no wallet-level counterpart", a.Oc)
		}
		for k := 0; k < a.N; k++ {
			var addr btcutil.Address
			var err error
			if a.B == 0 {
				addr, err = e.w.NewAddress(uint32(a.A), scope)
			} else {
				addr, err = e.w.NewChangeAddress(uint32(a.A), scope)
			}
			w.n++
			if err != nil {
				return awClass(err), nil
			}
			want, oerr := w.expectAddr(a.S, a.A, a.B, a.First+k)
			if oerr != nil {
				return "", oerr
			}
			if addr.String() != want.String() {
				w.add("issue", fmt.Sprintf("address issued for (%s, account %d, branch %d): expected index %d", a.S, a.A, a.B, a.First+k),
					addr.String(), want.String())
				continue
			}
			// the BIP32 path the wallet reports for the address (PSBT derivation info) leads to its public key:
			// purpose' / coin' / account element / branch / index, where the account element of an imported
			// account is the child number of the imported key, not the number the wallet files it under
			script, _ := txscript.PayToAddrScript(addr)
			di, derr := e.w.FetchDerivationInfo(script)
			w.n++
			if derr != nil {
				w.add("issue", fmt.Sprintf("FetchDerivationInfo of the address issued for (%s,%d,%d,%d)", a.S, a.A, a.B, a.First+k), derr.Error(), "ok")
				continue
			}
			sc := oracle.Scopes[a.S]
			acctElem := hdkeychain.HardenedKeyStart + uint32(a.A)
			fp := uint32(0)
			if w.kinds[fmt.Sprintf("%s/%d", a.S, a.A)] == "xpub" {
				acctElem = w.xpubs[fmt.Sprintf("%s/%d", a.S, a.A)].ChildIndex()
				fp = 0x0a0b0c0d
			}
			wantPath := []uint32{hdkeychain.HardenedKeyStart + sc.Purpose, hdkeychain.HardenedKeyStart + sc.Coin, acctElem, uint32(a.B), uint32(a.First + k)}
			if fmt.Sprint(di.Bip32Path) != fmt.Sprint(wantPath) || di.MasterKeyFingerprint != fp {
				w.add("issue", fmt.Sprintf("derivation path reported for the address issued for (%s,%d,%d,%d)", a.S, a.A, a.B, a.First+k),
					fmt.Sprintf("%v fingerprint %08x", di.Bip32Path, di.MasterKeyFingerprint), fmt.Sprintf("%v fingerprint %08x", wantPath, fp))
			}
		}
		return "ok", nil
	case "Lookup":
		want, err := w.expectAddr(a.S, a.A, a.B, a.I)
		if err != nil {
			return "", err
		}
		ma, err := e.w.AddressInfo(want)
		w.n++
		if err != nil {
			w.add("issue", fmt.Sprintf("AddressInfo(%s,%d,%d,%d) of an issued address", a.S, a.A, a.B, a.I), err.Error(), "known")
			return st.Ret, nil
		}
		if ma.InternalAccount() != uint32(a.A) || ma.Internal() != (a.B == 1) {
			w.add("issue", fmt.Sprintf("AddressInfo(%s,%d,%d,%d)", a.S, a.A, a.B, a.I),
				fmt.Sprintf("account %d internal=%v", ma.InternalAccount(), ma.Internal()), fmt.Sprintf("account %d internal=%v", a.A, a.B == 1))
		}
		// the model prescribes what a private-key accessor answers here: "key" = unlocked, own account -
		// the key of exactly this address (also for addresses issued while the wallet was locked)
		if st.Ret == "key" {
			pk, perr := e.w.PrivKeyForAddress(want)
			w.n++
			if perr != nil {
				w.add("issue", fmt.Sprintf("PrivKeyForAddress(%s,%d,%d,%d) on an unlocked wallet", a.S, a.A, a.B, a.I), perr.Error(), "the address's private key")
			} else {
				got, _ := btcutil.NewAddressWitnessPubKeyHash(btcutil.Hash160(pk.PubKey().SerializeCompressed()), e.params)
				if a.S != "bip84" || got == nil || got.String() != want.String() {
					if a.S == "bip84" {
						w.add("issue", fmt.Sprintf("PrivKeyForAddress(%s,%d,%d,%d): key of another address", a.S, a.A, a.B, a.I), fmt.Sprint(got), want.String())
					}
				}
				pk.Zero()
			}
		}
		return st.Ret, nil
	case "NewAccount":
		if a.Oc != "commit" {
			return "", fmt.Errorf("harness: NewAccount with outcome %q has no wallet-level counterpart", a.Oc)
		}
		num, err := e.w.NextAccount(scope, a.Name)
		w.n++
		if err == nil {
			if int(num) != a.Num {
				w.add("ret", "NextAccount: account number", num, a.Num)
			}
			w.kinds[fmt.Sprintf("%s/%d", a.S, a.Num)] = "hd"
		}
		return awClass(err), nil
	case "ImportXpub":
		at, ok := awAddrType[a.S]
		if !ok {
			return "", fmt.Errorf("harness: no address type for importing into scope %s", a.S)
		}
		w.nimp++
		xpub, err := w.foreignXpub(fmt.Sprintf("%s-%d-%d", a.S, a.Num, w.nimp))
		if err != nil {
			return "", err
		}
		// an account-level extended PRIVATE key dressed up with the public version bytes is not a public key:
		// it has to be refused, not filed as a watch-only account readable while the wallet is locked
		if priv, perr := w.foreignXprvPublicVersion(fmt.Sprintf("%s-%d-%d", a.S, a.Num, w.nimp)); perr == nil {
			_, _, _, ierr := e.w.ImportAccountDryRun(a.Name+"-xprv", priv, 0x0a0b0c0d, &at, 1)
			w.n++
			if ierr == nil {
				w.add("priv-leak", "ImportAccountDryRun accepted an extended private key presented with the public version bytes", "ok", "refused")
			}
		}
		if a.Oc == "commit" {
			props, err := e.w.ImportAccount(a.Name, xpub, 0x0a0b0c0d, &at)
			w.n++
			if err == nil {
				if int(props.AccountNumber) != a.Num {
					w.add("ret", "ImportAccount: account number", props.AccountNumber, a.Num)
				}
				w.kinds[fmt.Sprintf("%s/%d", a.S, a.Num)] = "xpub"
				w.xpubs[fmt.Sprintf("%s/%d", a.S, a.Num)] = xpub
			}
			return awClass(err), nil
		}
		// dry run: alternately one that goes through and one that fails after the account was written
		w.ndry++
		n := uint32(1)
		if w.ndry%2 == 1 {
			n = waddrmgr.MaxAddressesPerAccount + 1
		}
		_, _, _, err = e.w.ImportAccountDryRun(a.Name, xpub, 0x0a0b0c0d, &at, n)
		w.n++
		if err != nil && n == 1 {
			return awClass(err), nil
		}
		if err == nil && n != 1 {
			w.add("harness", "a dry run asking for more addresses than an account can hold went through", "ok", "error")
		}
		// the model's answer for a rolled-back import: what a committed one would have said
		if err != nil && waddrmgr.IsError(err, waddrmgr.ErrDuplicateAccount) {
			return "duplicate", nil
		}
		return st.Ret, nil
	case "Import":
		if a.Oc != "commit" {
			return "", fmt.Errorf("harness: Import with outcome %q has no wallet-level counterpart", a.Oc)
		}
		pub := w.importPub(a.ID)
		addr, err := btcutil.NewAddressWitnessPubKeyHash(btcutil.Hash160(pub.SerializeCompressed()), e.params)
		if err != nil {
			return "", err
		}
		w.npub++
		if (si+w.npub)%2 == 0 {
			// every second import (by the position of the step in its behaviour, so that a replayed prefix does the same) meets a backend that refuses the address subscription: whatever the wallet then
			// answers, the running wallet and a reopened one have to agree on whether the address is known
			e.chain.ArmNotifyRecvFailure(1)
			ierr := e.w.ImportPublicKey(pub, waddrmgr.WitnessPubKey)
			e.chain.ArmNotifyRecvFailure(0)
			w.n++
			running, _ := e.w.HaveAddress(addr)
			reopened, serr := w.shadowKnows(addr)
			if serr != nil {
				return "", serr
			}
			if running != reopened {
				w.add("view", fmt.Sprintf("import of public key %s with a refused subscription (result: %v): address known to the running wallet / to a reopened one", a.ID, ierr),
					fmt.Sprintf("%v / %v", running, reopened), "the same answer")
			}
			w.silent = true
			return st.Ret, nil
		}
		err = e.w.ImportPublicKey(pub, waddrmgr.WitnessPubKey)
		w.n++
		if err != nil && strings.Contains(err.Error(), "already exists") {
			return "duplicate", nil
		}
		return awClass(err), nil
	case "Rename":
		if a.Oc != "commit" {
			return "", fmt.Errorf("harness: Rename with outcome %q has no wallet-level counterpart", a.Oc)
		}
		err := e.w.RenameAccount(scope, uint32(a.A), a.Name)
		w.n++
		return awClass(err), nil
	case "Lock":
		// Wallet.Lock only queues the request for the wallet's locker goroutine: the step is complete when the
		// manager reports locked (the model's Lock is atomic; the wallet API returns no result to compare)
		e.w.Lock()
		deadline := time.Now().Add(5 * time.Second)
		for !e.w.Locked() {
			if time.Now().After(deadline) {
				return "", fmt.Errorf("the wallet did not lock within 5 s")
			}
			time.Sleep(200 * time.Microsecond)
		}
		return st.Ret, nil
	case "Unlock":
		err := e.w.Unlock(awPriv(a.P), nil)
		w.n++
		return awClass(err), nil
	case "ChangeBoth":
		err := e.w.ChangePassphrases(awPub(a.PubOld), awPub(a.PubNew), awPriv(a.Old), awPriv(a.New))
		w.n++
		if err == nil {
			e.pubPass = awPub(a.PubNew)
			w.pub = awPub(a.PubNew)
		}
		return awClass(err), nil
	case "Restart":
		e.stop()
		if err := e.start(); err != nil {
			return "", err
		}
		if err := e.settle(); err != nil {
			return "", err
		}
		return "ok", nil
	}
	return "", fmt.Errorf("harness: operation %q has no wallet-level counterpart", st.Op)
}

// view compares the account view of the running wallet and of a manager opened on a copy of the file.
func (w *awWorld) view(exp *awObs) {
	e := w.e
	scopes := make([]string, 0, len(exp.Accts))
	for s := range exp.Accts {
		scopes = append(scopes, s)
	}
	sort.Strings(scopes)
	for _, s := range scopes {
		scope := scopeOf[s]
		accts := exp.Accts[s]
		for a, ae := range accts {
			id := fmt.Sprintf("%s/%d", s, a)
			props, err := e.w.AccountProperties(scope, uint32(a))
			w.n++
			if err != nil {
				w.add("view", "running: AccountProperties("+id+")", err.Error(), "ok")
				continue
			}
			got := fmt.Sprintf("name=%s ext=%d int=%d", props.AccountName, props.ExternalKeyCount, props.InternalKeyCount)
			want := fmt.Sprintf("name=%s ext=%d int=%d", ae.Name, ae.Ext, ae.Int)
			if got != want {
				w.add("view", "running: AccountProperties("+id+")", got, want)
			}
			if ae.Kind == "xpub" {
				if k := w.xpubs[id]; k != nil && (props.AccountPubKey == nil || props.AccountPubKey.String() != k.String()) {
					w.add("view", "running: AccountProperties("+id+").AccountPubKey", fmt.Sprint(props.AccountPubKey), k.String())
				}
			}
			num, err := e.w.AccountNumber(scope, ae.Name)
			w.n++
			if err != nil || int(num) != a {
				w.add("view", "running: AccountNumber("+s+","+ae.Name+")", fmt.Sprint(num, err), a)
			}
			nm, err := e.w.AccountName(scope, uint32(a))
			w.n++
			if err != nil || nm != ae.Name {
				w.add("view", "running: AccountName("+id+")", fmt.Sprint(nm, err), ae.Name)
			}
		}
		if _, err := e.w.AccountProperties(scope, uint32(len(accts))); err == nil {
			w.add("view", fmt.Sprintf("running: AccountProperties(%s/%d) of an account that does not exist", s, len(accts)), "ok", "error")
		}
		if nm, err := e.w.AccountName(scope, uint32(len(accts))); err == nil {
			w.add("view", fmt.Sprintf("running: AccountName(%s/%d) of an account that does not exist", s, len(accts)), nm, "error")
		}
	}
	// imported public keys: known to the running wallet and to a reopened one exactly when the model has them
	for _, id := range []string{"p1", "p2"} {
		in := false
		for _, x := range exp.Imp {
			if x == id {
				in = true
			}
		}
		pub := w.importPub(id)
		addr, err := btcutil.NewAddressWitnessPubKeyHash(btcutil.Hash160(pub.SerializeCompressed()), e.params)
		if err != nil {
			continue
		}
		running, _ := e.w.HaveAddress(addr)
		w.n++
		if running != in {
			w.add("view", "running: imported public key "+id+" known", running, in)
		}
		if reopened, err := w.shadowKnows(addr); err == nil && reopened != in {
			w.add("view", "restart: imported public key "+id+" known", reopened, in)
		}
	}
	// what a restart would say: a manager opened on a copy of the database file
	cp := filepath.Join(e.dir, "shadow.db")
	if err := copyFile(e.dbPath, cp); err != nil {
		w.add("harness", "copy of the database file", err.Error(), nil)
		return
	}
	db, err := walletdb.Open("bdb", cp, true, 10*time.Second, false)
	if err != nil {
		w.add("view", "restart: open the database copy", err.Error(), "ok")
		return
	}
	defer db.Close()
	err = walletdb.View(db, func(tx walletdb.ReadTx) error {
		ns := tx.ReadBucket([]byte("waddrmgr"))
		m, err := waddrmgr.Open(ns, w.pub, e.params)
		if err != nil {
			return err
		}
		defer m.Close()
		for _, s := range scopes {
			sm, err := m.FetchScopedKeyManager(scopeOf[s])
			if err != nil {
				w.add("view", "restart: FetchScopedKeyManager("+s+")", err.Error(), "ok")
				continue
			}
			accts := exp.Accts[s]
			for a, ae := range accts {
				id := fmt.Sprintf("%s/%d", s, a)
				props, err := sm.AccountProperties(ns, uint32(a))
				w.n++
				if err != nil {
					w.add("view", "restart: AccountProperties("+id+")", err.Error(), "ok")
					continue
				}
				got := fmt.Sprintf("name=%s ext=%d int=%d", props.AccountName, props.ExternalKeyCount, props.InternalKeyCount)
				want := fmt.Sprintf("name=%s ext=%d int=%d", ae.Name, ae.Ext, ae.Int)
				if got != want {
					w.add("view", "restart: AccountProperties("+id+")", got, want)
				}
			}
			last, err := sm.LastAccount(ns)
			w.n++
			if err != nil || int(last) != len(accts)-1 {
				w.add("view", "restart: LastAccount("+s+")", fmt.Sprint(last, err), len(accts)-1)
			}
		}
		return nil
	})
	if err != nil {
		w.add("view", "restart: waddrmgr.Open on the database copy", err.Error(), "ok")
	}
}

// importPub returns the public key imported under the model's identifier.
func (w *awWorld) importPub(id string) *btcec.PublicKey {
	h := sha256.Sum256([]byte("aw-import-pub-" + id + "-" + fmt.Sprint(w.e.seed)))
	_, pub := btcec.PrivKeyFromBytes(h[:])
	return pub
}

// shadowKnows reports whether a manager opened on a copy of the database file knows the address.
func (w *awWorld) shadowKnows(addr btcutil.Address) (bool, error) {
	e := w.e
	cp := filepath.Join(e.dir, "shadow-k.db")
	if err := copyFile(e.dbPath, cp); err != nil {
		return false, err
	}
	db, err := walletdb.Open("bdb", cp, true, 10*time.Second, false)
	if err != nil {
		return false, err
	}
	defer db.Close()
	known := false
	err = walletdb.View(db, func(tx walletdb.ReadTx) error {
		ns := tx.ReadBucket([]byte("waddrmgr"))
		m, err := waddrmgr.Open(ns, w.pub, e.params)
		if err != nil {
			return err
		}
		defer m.Close()
		_, aerr := m.Address(ns, addr)
		known = aerr == nil
		return nil
	})
	return known, err
}
