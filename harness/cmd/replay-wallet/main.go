package main

import (
	"flag"
	"time"

	"fmt"
	"github.com/btcsuite/btclog"
	"github.com/btcsuite/btcwallet/wallet"
	"os"

	"verif/harness/internal/common"
)

func main() {
	in := flag.String("in", "", "ndjson behaviours")
	out := flag.String("out", "", "report file")
	spec := flag.String("spec", "chainsync", "chainsync | spend | recovery")
	prop := flag.String("prop", "C15", "property")
	workers := flag.Int("workers", 16, "parallel replays")
	seed := flag.Int("seed", 1, "VERIF_SEED")
	every := flag.Int("every", 1, "replay every n-th behaviour")
	offset := flag.Int("offset", 0, "sampling offset")
	grace := flag.Duration("grace", 250*time.Millisecond, "race-addr: how long caller B may stay blocked before A is released")
	stress := flag.Int("stress", 4, "race-addr: free-running stress rounds")
	traceOut := flag.String("traceout", "", "race-addr: where to write the recorded events")
	flag.Parse()
	if os.Getenv("VERIF_WALLET_LOG") != "" {
		backend := btclog.NewBackend(os.Stderr)
		l := backend.Logger("WLLT")
		l.SetLevel(btclog.LevelDebug)
		wallet.UseLogger(l)
	}

	root, err := common.ScratchRoot("wallet")
	if err != nil {
		fmt.Fprintln(os.Stderr, err)
		os.Exit(2)
	}
	defer os.RemoveAll(root)
	rep := common.NewReport()
	rep.Rule = map[string]string{
		"C06": "non-trivial = distinct (request, wallet state: coin statuses, spenders, locks, leases) pairs for which a created transaction's inputs were compared with the eligible set / a refusal was required",
		"C20": "non-trivial = distinct (operation incl. backend answer class, wallet state) pairs after which balances, spendable set, recorded transactions (and the re-broadcast log after restarts) were compared",
		"C16": "non-trivial = distinct usage patterns (window, lock state, used addresses, unspent outputs) recovered and compared, distinct invalid-child sets driven through BranchRecoveryState, and distinct (timestamp sequence, birthday) pairs with a payable block",
		"C02": "wallet-level pass: non-trivial = distinct (backend chain, transaction placement, last operation) quiescent states compared",
		"C15": "non-trivial = distinct (backend chain of block ids, wallet transaction placement, last operation) quiescent states of a running wallet that were compared",
	}[*prop]
	if *spec == "race-addr" {
		rep.Rule = "non-trivial = distinct ordered pairs of issuing call sites driven through the gate at the commit callback, plus stress rounds"
		runRace(*seed, root, *grace, *stress, *traceOut, rep)
		if err := rep.Write(*out); err != nil {
			fmt.Fprintln(os.Stderr, err)
			os.Exit(2)
		}
		if raceHung {
			os.RemoveAll(root)
			os.Exit(0)
		}
		return
	}
	err = common.ForEachLine(*in, *workers, func(idx int, line []byte) {
		if (idx+*offset)%*every != 0 {
			return
		}
		switch *spec {
		case "chainsync":
			replayChainSync(idx, line, *prop, *seed, root, rep)
		case "spend":
			replaySpend(idx, line, *prop, *seed, root, rep)
		case "addrmgr-wallet":
			replayAddrWallet(idx, line, *prop, *seed, root, rep)
		case "recovery-branch":
			replayBranch(idx, line, rep)
		case "recovery-birthday":
			replayBirthday(idx, line, rep)
		case "recovery-scan":
			replayScan(idx, line, *seed, root, rep)
		default:
			rep.AddError("unknown spec %q", *spec)
		}
	})
	if err != nil {
		rep.AddError("input: %v", err)
	}
	if err := rep.Write(*out); err != nil {
		fmt.Fprintln(os.Stderr, err)
		os.Exit(2)
	}
}
