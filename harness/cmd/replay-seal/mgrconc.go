package main

import (
	"bytes"
	"encoding/json"
	"fmt"
	"sync/atomic"
	"time"

	"github.com/btcsuite/btcwallet/waddrmgr"

	"verif/harness/internal/common"
)

// ---- spec/SealMgr.tla behaviours: Manager.Encrypt/Decrypt against a concurrent Lock ----
//
// The worker's Encrypt/Decrypt runs in its own goroutine and is parked at the
// hook "crypt.keyselected" (between selecting the key and using it); the
// controller's Lock runs in another goroutine.  Only one behaviour is replayed
// at a time per process (the hook is a package variable).

type concArgs struct {
	Op string `json:"op"`
	Kt string `json:"kt"`
	N  int    `json:"n"`
}

var (
	gateArmed   atomic.Bool
	gateParked  = make(chan struct{}, 1)
	gateRelease = make(chan struct{})
)

func init() {
	waddrmgr.VerifPoint = func(name string) {
		if name != "crypt.keyselected" || !gateArmed.Load() {
			return
		}
		gateArmed.Store(false) // one call per arming
		gateParked <- struct{}{}
		<-gateRelease
	}
}

var cktOf = map[string]waddrmgr.CryptoKeyType{"pub": waddrmgr.CKTPublic, "priv": waddrmgr.CKTPrivate, "script": waddrmgr.CKTScript}

type concResult struct {
	out []byte
	err error
}

// replayMgrConc replays one behaviour on the unlocked manager of env and
// leaves the manager unlocked.
func replayMgrConc(idx int, tr *Trace, env *mgrEnv, rep *common.Report) int {
	m := env.mgr
	checks := 0
	report := func(step int, class, what string, obs, exp interface{}) {
		var a concArgs
		if step < len(tr.Steps) {
			json.Unmarshal(tr.Steps[step].A, &a)
		}
		mm := common.Mismatch{Prop: "C17", Sig: fmt.Sprintf("seal:mgrconc:%s:%s:%s", class, a.Op, a.Kt), Trace: idx, Step: step,
			What: what, Observed: obs, Expected: exp}
		cut := *tr
		mm.Behav, _ = json.Marshal(cut)
		rep.AddMismatch(mm)
	}
	pt := func(n int, kt string) []byte {
		return append([]byte(fmt.Sprintf("conc-%d-%s-", n, kt)), plaintext(24)...)
	}
	// a good ciphertext per key type, made while unlocked
	good := map[string][]byte{}
	for kt, t := range cktOf {
		ct, err := m.Encrypt(t, pt(0, kt))
		if err != nil {
			rep.AddError("trace %d: setup Encrypt(%s): %v", idx, kt, err)
			return checks
		}
		good[kt] = ct
	}
	type sealed struct {
		step int
		n    int
		kt   string
		ct   []byte
	}
	var made []sealed
	var workerDone chan concResult
	var lockDone chan error
	var cur concArgs
	curStep := -1
	waitLock := func() error {
		if lockDone == nil {
			return nil
		}
		select {
		case err := <-lockDone:
			lockDone = nil
			return err
		case <-time.After(10 * time.Second):
			return fmt.Errorf("Manager.Lock did not return within 10 s")
		}
	}
	finishWorker := func() {
		if workerDone == nil {
			return
		}
		gateRelease <- struct{}{}
		select {
		case r := <-workerDone:
			workerDone = nil
			checks++
			if cur.Op == "enc" {
				if r.err != nil {
					// a refusal is a result the property allows; data under the wrong key is not
					rep.Inc("encrypt_refused_in_section", 1)
				} else {
					made = append(made, sealed{curStep, cur.N, cur.Kt, r.out})
				}
			} else {
				if r.err != nil {
					report(curStep, "decrypt", fmt.Sprintf("Decrypt(%s) of an unmodified ciphertext made under the same key, started while unlocked", cur.Kt),
						r.err.Error(), "the original bytes")
				} else if !bytes.Equal(r.out, pt(0, cur.Kt)) {
					report(curStep, "decrypt", fmt.Sprintf("Decrypt(%s) returned other bytes than were encrypted", cur.Kt),
						fmt.Sprintf("%x", r.out), fmt.Sprintf("%x", pt(0, cur.Kt)))
				}
			}
		case <-time.After(10 * time.Second):
			rep.AddError("trace %d: worker did not return within 10 s after the gate was released", idx)
		}
	}
	for si := range tr.Steps {
		st := &tr.Steps[si]
		var a concArgs
		if len(st.A) > 0 && st.A[0] == '{' {
			json.Unmarshal(st.A, &a)
		}
		switch st.Op {
		case "Begin":
			want := retString(st)
			done := make(chan concResult, 1)
			gateArmed.Store(true)
			go func(a concArgs) {
				var r concResult
				if a.Op == "enc" {
					r.out, r.err = m.Encrypt(cktOf[a.Kt], pt(a.N, a.Kt))
				} else {
					r.out, r.err = m.Decrypt(cktOf[a.Kt], good[a.Kt])
				}
				done <- r
			}(a)
			select {
			case <-gateParked:
				checks++
				if want != "parked" {
					report(si, "locked", fmt.Sprintf("%s(%s) on a locked manager went on to use the key", a.Op, a.Kt), "key selected", "refused (locked)")
				}
				workerDone, cur, curStep = done, a, si
			case r := <-done:
				gateArmed.Store(false)
				checks++
				if want == "parked" {
					if r.err != nil {
						report(si, "refused", fmt.Sprintf("%s(%s) on an unlocked manager", a.Op, a.Kt), r.err.Error(), "ok")
					} else {
						rep.AddError("trace %d step %d: the hook crypt.keyselected was not reached (hook missing?)", idx, si)
					}
					return checks
				}
				if r.err == nil {
					report(si, "locked", fmt.Sprintf("%s(%s) on a locked manager returned data", a.Op, a.Kt), "ok", "refused (locked)")
				} else if !waddrmgr.IsError(r.err, waddrmgr.ErrLocked) {
					rep.Inc("locked_refusal_other_error", 1)
				}
			case <-time.After(10 * time.Second):
				rep.AddError("trace %d step %d: worker neither parked nor returned", idx, si)
				return checks
			}
		case "Finish":
			finishWorker()
		case "LockCall":
			ld := make(chan error, 1)
			go func() { ld <- m.Lock() }()
			lockDone = ld
			// give the call the chance to run: in the code's design it blocks on the manager mutex while the
			// worker is parked; a design that releases the mutex early lets it finish here
			if workerDone != nil {
				select {
				case err := <-ld:
					ld <- err
					rep.Inc("lock_completed_while_worker_in_section", 1)
				case <-time.After(3 * time.Millisecond):
				}
			}
		case "LockTake":
			if err := waitLock(); err != nil {
				rep.AddError("trace %d step %d: %v", idx, si, err)
				return checks
			}
		case "Unlock":
			if err := env.unlock([]byte("priv")); err != nil {
				rep.AddError("trace %d step %d: Unlock: %v", idx, si, err)
				return checks
			}
		}
	}
	// wind down: nothing may stay parked or pending, manager unlocked again
	finishWorker()
	if err := waitLock(); err != nil {
		rep.AddError("trace %d: %v", idx, err)
		return checks
	}
	if m.IsLocked() {
		if err := env.unlock([]byte("priv")); err != nil {
			rep.AddError("trace %d: final Unlock: %v", idx, err)
			return checks
		}
	}
	// C17: whatever Encrypt returned decrypts, under the same key, to what was encrypted
	for _, s := range made {
		got, err := m.Decrypt(cktOf[s.kt], s.ct)
		checks++
		if err != nil {
			report(s.step, "roundtrip", fmt.Sprintf("ciphertext returned by Encrypt(%s) (operation %d) does not open under the same key", s.kt, s.n),
				err.Error(), "the original bytes")
		} else if !bytes.Equal(got, pt(s.n, s.kt)) {
			report(s.step, "roundtrip", fmt.Sprintf("ciphertext returned by Encrypt(%s) opens to other bytes", s.kt),
				fmt.Sprintf("%x", got), fmt.Sprintf("%x", pt(s.n, s.kt)))
		}
	}
	return checks
}
