// replay-seal replays the cases TLC enumerates from spec/Seal.tla on the real
// snacl package and on waddrmgr.Manager.Encrypt/Decrypt/Unlock/Open (built
// from /repo's working tree) and compares the result class of every step with
// the one the specification prescribes. The driver never decides what is
// right: every expectation is the `ret` field computed by TLA+ operators.
package main

import (
	"bytes"
	"crypto/sha256"
	"encoding/json"
	"flag"
	"fmt"
	"os"
	"os/exec"
	"path/filepath"
	"strings"
	"sync"
	"time"

	"github.com/btcsuite/btcd/btcutil/hdkeychain"
	"github.com/btcsuite/btcd/chaincfg"
	"github.com/btcsuite/btcwallet/snacl"
	"github.com/btcsuite/btcwallet/waddrmgr"
	"github.com/btcsuite/btcwallet/walletdb"
	_ "github.com/btcsuite/btcwallet/walletdb/bdb"

	"verif/harness/internal/common"
)

// ---------- trace format ----------

type Step struct {
	Op  string          `json:"op"`
	A   json.RawMessage `json:"a"`
	Ret json.RawMessage `json:"ret"`
}

type Trace struct {
	Mode  string `json:"mode"`
	Steps []Step `json:"steps"`
}

type encArgs struct {
	K   int `json:"k"`
	Len int `json:"len"`
}
type flipArgs struct {
	Bit    int    `json:"bit"`
	Byte   int    `json:"byte"`
	Mask   int    `json:"mask"`
	Region string `json:"region"`
}
type cutArgs struct {
	Keep   int    `json:"n"`
	Region string `json:"region"`
}
type pwArgs struct {
	Pw string `json:"pw"`
	N  int    `json:"N"`
	R  int    `json:"r"`
	P  int    `json:"p"`
}
type lenArgs struct {
	Len int `json:"len"`
}
type paramRet struct {
	Class string `json:"class"`
	Len   int    `json:"len"`
	N     int    `json:"N"`
	R     int    `json:"r"`
	P     int    `json:"p"`
}

func retString(st *Step) string {
	var s string
	if json.Unmarshal(st.Ret, &s) == nil {
		return s
	}
	var p paramRet
	if json.Unmarshal(st.Ret, &p) == nil {
		return p.Class
	}
	return "?"
}

// ---------- shared fixtures ----------

const (
	nonceSize = 24
	tagSize   = 16
	blobLen   = 88
)

var (
	seed     int64
	nsKey    = []byte("waddrmgr")
	netParms = &chaincfg.RegressionNetParams
	rootKey  *hdkeychain.ExtendedKey
	rawKeys  [4]*snacl.CryptoKey // 1-based
	ckt      = [4]waddrmgr.CryptoKeyType{0, waddrmgr.CKTPublic, waddrmgr.CKTPrivate, waddrmgr.CKTScript}
)

// plaintext returns the deterministic plaintext of a given length.
func plaintext(n int) []byte {
	out := make([]byte, 0, n+32)
	var ctr byte
	for len(out) < n {
		h := sha256.Sum256([]byte(fmt.Sprintf("verif-seal-pt-%d-%d-%d", seed, n, ctr)))
		out = append(out, h[:]...)
		ctr++
	}
	return out[:n]
}

type mgrEnv struct {
	dir    string
	dbPath string
	db     walletdb.DB
	mgr    *waddrmgr.Manager
	pub    []byte
}

func newMgrEnv(dir string, pub, priv []byte, opts *waddrmgr.ScryptOptions) (*mgrEnv, error) {
	if err := os.MkdirAll(dir, 0700); err != nil {
		return nil, err
	}
	e := &mgrEnv{dir: dir, dbPath: filepath.Join(dir, "mgr.db"), pub: pub}
	db, err := walletdb.Create("bdb", e.dbPath, true, 10*time.Second, false)
	if err != nil {
		return nil, err
	}
	e.db = db
	err = walletdb.Update(db, func(tx walletdb.ReadWriteTx) error {
		ns, err := tx.CreateTopLevelBucket(nsKey)
		if err != nil {
			return err
		}
		return waddrmgr.Create(ns, rootKey, pub, priv, netParms, opts, time.Unix(1_600_000_000, 0))
	})
	if err != nil {
		db.Close()
		return nil, err
	}
	if err := e.open(pub); err != nil {
		db.Close()
		return nil, err
	}
	return e, nil
}

func (e *mgrEnv) open(pub []byte) error {
	return walletdb.View(e.db, func(tx walletdb.ReadTx) error {
		m, err := waddrmgr.Open(tx.ReadBucket(nsKey), pub, netParms)
		if err != nil {
			return err
		}
		e.mgr = m
		return nil
	})
}

// tryOpen opens a second handle with the candidate public passphrase.
func (e *mgrEnv) tryOpen(pub []byte) error {
	return walletdb.View(e.db, func(tx walletdb.ReadTx) error {
		m, err := waddrmgr.Open(tx.ReadBucket(nsKey), pub, netParms)
		if err != nil {
			return err
		}
		m.Close()
		return nil
	})
}

func (e *mgrEnv) unlock(pw []byte) error {
	return walletdb.View(e.db, func(tx walletdb.ReadTx) error {
		return e.mgr.Unlock(tx.ReadBucket(nsKey), pw)
	})
}

// reopen closes the manager and the database and opens both again.
func (e *mgrEnv) reopen() error {
	if e.mgr != nil {
		e.mgr.Close()
		e.mgr = nil
	}
	if err := e.db.Close(); err != nil {
		return err
	}
	db, err := walletdb.Open("bdb", e.dbPath, true, 10*time.Second, false)
	if err != nil {
		return err
	}
	e.db = db
	return e.open(e.pub)
}

func (e *mgrEnv) close() {
	if e.mgr != nil {
		e.mgr.Close()
	}
	if e.db != nil {
		e.db.Close()
	}
	os.RemoveAll(e.dir)
}

// ---------- sealing back ends (what "a key" is at each level) ----------

type sealer interface {
	enc(k int, pt []byte) ([]byte, error)
	dec(k int, ct []byte) ([]byte, error)
}

type snaclSealer struct{}

func (snaclSealer) enc(k int, pt []byte) ([]byte, error) { return rawKeys[k].Encrypt(pt) }
func (snaclSealer) dec(k int, ct []byte) ([]byte, error) { return rawKeys[k].Decrypt(ct) }

type mgrSealer struct{ m *waddrmgr.Manager }

func (s mgrSealer) enc(k int, pt []byte) ([]byte, error) { return s.m.Encrypt(ckt[k], pt) }
func (s mgrSealer) dec(k int, ct []byte) ([]byte, error) { return s.m.Decrypt(ckt[k], ct) }

// ---------- replay ----------

type runner struct {
	rep   *common.Report
	idx   int
	tr    *Trace
	level string
	n     int // comparisons made
}

func (r *runner) mismatch(step int, class, detail, what string, obs, exp interface{}) {
	op := r.tr.Steps[step].Op
	sig := fmt.Sprintf("seal:%s:%s:%s", class, op, r.level)
	if detail != "" {
		sig += ":" + detail
	}
	m := common.Mismatch{Prop: "C17", Sig: sig, Trace: r.idx, Step: step, What: what, Observed: obs, Expected: exp}
	cut := *r.tr
	cut.Steps = r.tr.Steps[:step+1]
	m.Behav, _ = json.Marshal(cut)
	r.rep.AddMismatch(m)
}

// guard runs fn and converts a panic of the code under test into a mismatch.
func (r *runner) guard(step int, fn func()) (panicked bool) {
	defer func() {
		if x := recover(); x != nil {
			panicked = true
			r.n++
			r.mismatch(step, "panic", "", fmt.Sprintf("%s panicked instead of returning a result", r.tr.Steps[step].Op),
				fmt.Sprint(x), retString(&r.tr.Steps[step]))
		}
	}()
	fn()
	return false
}

func errStr(err error) string {
	if err == nil {
		return "ok"
	}
	return "error: " + err.Error()
}

// ctRegion names where a ciphertext was modified (for the signature).
func ctDetail(mods []string) string {
	if len(mods) == 0 {
		return "unmodified"
	}
	return strings.Join(mods, "+")
}

// replayAead executes a ciphertext behaviour on one sealing back end.
func (r *runner) replayAead(s sealer) {
	var pt, ct, first []byte
	var mods []string
	flipped := map[int]string{}
	for si := range r.tr.Steps {
		st := &r.tr.Steps[si]
		want := retString(st)
		stop := r.guard(si, func() {
			switch st.Op {
			case "Encrypt":
				var a encArgs
				json.Unmarshal(st.A, &a)
				pt = plaintext(a.Len)
				out, err := s.enc(a.K, pt)
				r.n++
				if err != nil {
					r.mismatch(si, "call", "", "Encrypt failed", err.Error(), want)
					return
				}
				if len(out) != nonceSize+tagSize+a.Len {
					r.mismatch(si, "layout", "", "ciphertext length is not nonce+tag+plaintext", len(out), nonceSize+tagSize+a.Len)
				}
				if a.Len >= 4 && bytes.Contains(out, pt) {
					r.mismatch(si, "cleartext", "", "ciphertext contains the plaintext", "contains", "absent")
				}
				ct = out
				first = append([]byte(nil), out...)
			case "EncryptAgain":
				var a encArgs
				json.Unmarshal(r.tr.Steps[0].A, &a)
				out, err := s.enc(a.K, pt)
				r.n++
				if err != nil {
					r.mismatch(si, "call", "", "Encrypt failed", err.Error(), want)
					return
				}
				got := "differs"
				if bytes.Equal(out, first) {
					got = "equal"
				} else if len(out) >= nonceSize && len(first) >= nonceSize && bytes.Equal(out[:nonceSize], first[:nonceSize]) {
					got = "equal-nonce"
				}
				if got != want {
					r.mismatch(si, "nonce", "", "two encryptions of the same plaintext under the same key", got, want)
				}
				ct = out
			case "Flip":
				var a flipArgs
				json.Unmarshal(st.A, &a)
				if a.Byte >= len(ct) {
					r.rep.AddError("trace %d step %d: flip position %d beyond ciphertext of %d bytes", r.idx, si, a.Byte, len(ct))
					return
				}
				ct = append([]byte(nil), ct...)
				ct[a.Byte] ^= byte(a.Mask)
				if _, on := flipped[a.Bit]; on {
					delete(flipped, a.Bit)
				} else {
					flipped[a.Bit] = "flip-" + a.Region
				}
				mods = mods[:0]
				for _, reg := range []string{"flip-nonce", "flip-tag", "flip-body"} {
					for _, v := range flipped {
						if v == reg {
							mods = append(mods, reg)
							break
						}
					}
				}
			case "Truncate":
				var a cutArgs
				json.Unmarshal(st.A, &a)
				ct = append([]byte(nil), ct[:a.Keep]...)
				if a.Region == "appended" {
					mods = nil
				} else {
					mods = []string{"cut-" + a.Region}
				}
			case "Extend":
				ct = append(append([]byte(nil), ct...), 0xa5)
				mods = []string{"extended"}
			case "Decrypt":
				var a encArgs
				json.Unmarshal(st.A, &a)
				var ka encArgs
				json.Unmarshal(r.tr.Steps[0].A, &ka)
				out, err := s.dec(a.K, ct)
				r.n++
				detail := ctDetail(mods)
				if a.K != ka.K {
					detail = "otherkey+" + detail
				}
				switch {
				case want == "error" && err == nil:
					r.mismatch(si, "accepts", detail, fmt.Sprintf("Decrypt returned %d bytes of data for a ciphertext that must be rejected (sealed under key %d, opened under key %d, %d of %d bytes, modifications %v)",
						len(out), ka.K, a.K, len(ct), nonceSize+tagSize+len(pt), mods), "ok", "error")
				case want == "ok" && err != nil:
					r.mismatch(si, "rejects", detail, "Decrypt rejected an authentic ciphertext", err.Error(), "ok")
				case want == "ok" && !bytes.Equal(out, pt):
					r.mismatch(si, "bytes", detail, "Decrypt returned other bytes than were encrypted", fmt.Sprintf("%x", out), fmt.Sprintf("%x", pt))
				}
			default:
				r.rep.AddError("trace %d: unknown op %q in mode %s", r.idx, st.Op, r.tr.Mode)
			}
		})
		if stop {
			return
		}
	}
}

// replayPassSnacl executes a passphrase-key behaviour on snacl.SecretKey.
func (r *runner) replayPassSnacl() {
	var sk *snacl.SecretKey
	var probe, probePt, blob []byte
	for si := range r.tr.Steps {
		st := &r.tr.Steps[si]
		want := retString(st)
		stop := r.guard(si, func() {
			switch st.Op {
			case "NewSecretKey":
				var a pwArgs
				json.Unmarshal(st.A, &a)
				pw := []byte(a.Pw)
				k, err := snacl.NewSecretKey(&pw, a.N, a.R, a.P)
				r.n++
				if err != nil {
					r.mismatch(si, "call", "", "NewSecretKey failed", err.Error(), want)
					return
				}
				sk = k
			case "Rekey":
				// a new SecretKey (new salt) for the new passphrase takes over what the old one protected
				var a pwArgs
				json.Unmarshal(st.A, &a)
				pw := []byte(a.Pw)
				k, err := snacl.NewSecretKey(&pw, sk.Parameters.N, sk.Parameters.R, sk.Parameters.P)
				r.n++
				if err != nil {
					r.mismatch(si, "call", "", "NewSecretKey failed", err.Error(), want)
					return
				}
				old, err := sk.Decrypt(probe)
				if err != nil || !bytes.Equal(old, probePt) {
					r.mismatch(si, "rejects", "", "the running key does not open the probe before the passphrase change", fmt.Sprint(err), "ok")
					return
				}
				sk = k
				if probe, err = sk.Encrypt(old); err != nil {
					r.mismatch(si, "call", "", "SecretKey.Encrypt failed", err.Error(), want)
				}
			case "SealProbe":
				var a lenArgs
				json.Unmarshal(st.A, &a)
				probePt = plaintext(a.Len)
				out, err := sk.Encrypt(probePt)
				r.n++
				if err != nil {
					r.mismatch(si, "call", "", "SecretKey.Encrypt failed", err.Error(), want)
					return
				}
				probe = out
			case "Zero":
				sk.Zero()
			case "DeriveKey":
				var a pwArgs
				json.Unmarshal(st.A, &a)
				pw := []byte(a.Pw)
				err := sk.DeriveKey(&pw)
				r.n++
				r.comparePass(si, "passphrase", want, err, fmt.Sprintf("DeriveKey(%q)", a.Pw))
			case "OpenProbe":
				out, err := sk.Decrypt(probe)
				r.n++
				switch {
				case want == "error" && err == nil:
					r.mismatch(si, "accepts", "", "a key other than the sealing key opened the ciphertext", "ok", "error")
				case want == "ok" && err != nil:
					r.mismatch(si, "rejects", "", "the re-derived key does not open what the original key sealed", err.Error(), "ok")
				case want == "ok" && !bytes.Equal(out, probePt):
					r.mismatch(si, "bytes", "", "Decrypt returned other bytes than were encrypted", fmt.Sprintf("%x", out), fmt.Sprintf("%x", probePt))
				}
			case "Marshal":
				var p paramRet
				json.Unmarshal(st.Ret, &p)
				blob = sk.Marshal()
				r.n++
				if len(blob) != p.Len {
					r.mismatch(si, "params", "", "marshalled length", len(blob), p.Len)
				}
			case "FlipBlob":
				var a flipArgs
				json.Unmarshal(st.A, &a)
				blob = append([]byte(nil), blob...)
				blob[a.Byte] ^= byte(a.Mask)
			case "Unmarshal":
				var a lenArgs
				json.Unmarshal(st.A, &a)
				var p paramRet
				json.Unmarshal(st.Ret, &p)
				data := make([]byte, a.Len)
				copy(data, blob)
				var nk snacl.SecretKey
				err := nk.Unmarshal(data)
				r.n++
				switch {
				case want == "error" && err == nil:
					r.mismatch(si, "params", fmt.Sprintf("len%+d", a.Len-blobLen), fmt.Sprintf("Unmarshal accepted %d bytes (a parameter blob has %d)", a.Len, blobLen), "ok", "error")
				case want == "ok" && err != nil:
					r.mismatch(si, "params", "exact", "Unmarshal rejected its own Marshal output", err.Error(), "ok")
				case want == "ok":
					if nk.Parameters.N != p.N || nk.Parameters.R != p.R || nk.Parameters.P != p.P {
						r.mismatch(si, "params", "roundtrip", "parameters after Marshal/Unmarshal",
							[]int{nk.Parameters.N, nk.Parameters.R, nk.Parameters.P}, []int{p.N, p.R, p.P})
					}
					if !bytes.Equal(nk.Marshal(), data) {
						r.mismatch(si, "params", "roundtrip", "Marshal(Unmarshal(blob)) differs from blob", fmt.Sprintf("%x", nk.Marshal()), fmt.Sprintf("%x", data))
					}
					sk = &nk
				}
			case "Restart":
				var a pwArgs
				json.Unmarshal(st.A, &a)
				var nk snacl.SecretKey
				if err := nk.Unmarshal(append([]byte(nil), blob...)); err != nil {
					r.n++
					r.mismatch(si, "params", "exact", "Unmarshal rejected a blob of the right length", err.Error(), "ok")
					return
				}
				pw := []byte(a.Pw)
				err := nk.DeriveKey(&pw)
				r.n++
				sk = &nk
				r.comparePass(si, "passphrase", want, err, fmt.Sprintf("Unmarshal + DeriveKey(%q)", a.Pw))
			default:
				r.rep.AddError("trace %d: unknown op %q in mode pass", r.idx, st.Op)
			}
		})
		if stop {
			return
		}
	}
}

func (r *runner) comparePass(si int, class, want string, err error, call string) {
	switch {
	case want == "error" && err == nil:
		r.mismatch(si, class, "accepted", call+" accepted a passphrase/parameter set it must reject", "ok", "error")
	case want == "ok" && err != nil:
		r.mismatch(si, class, "rejected", call+" rejected the passphrase the key was created from", err.Error(), "ok")
	}
}

// mgrEligible: behaviours that have a meaning for a waddrmgr.Manager.
func mgrEligible(tr *Trace) (pwArgs, bool) {
	var a pwArgs
	if len(tr.Steps) == 0 || tr.Steps[0].Op != "NewSecretKey" {
		return a, false
	}
	json.Unmarshal(tr.Steps[0].A, &a)
	if a.Pw == "" { // waddrmgr.Create refuses an empty private passphrase
		return a, false
	}
	for i := range tr.Steps {
		if tr.Steps[i].Op == "FlipBlob" {
			return a, false
		}
		if tr.Steps[i].Op == "Rekey" {
			var b pwArgs
			json.Unmarshal(tr.Steps[i].A, &b)
			if b.Pw == "" {
				return a, false
			}
		}
	}
	return a, true
}

func hasRekey(tr *Trace) bool {
	for i := range tr.Steps {
		if tr.Steps[i].Op == "Rekey" {
			return true
		}
	}
	return false
}

// replayPassMgr maps the behaviour onto a real address manager whose public
// AND private master keys are created from the behaviour's passphrase:
// DeriveKey = Unlock (private) and Open (public), Zero = Lock, the probe is
// sealed with Manager.Encrypt(CKTPrivate), Restart closes and reopens the
// database file.
func (r *runner) replayPassMgr(root string, a0 pwArgs) {
	// a manager created from (passphrase, parameters) is reused by later
	// behaviours with the same start: nothing here writes to its database, and
	// a fresh Manager handle is opened from the file for every behaviour
	var env *mgrEnv
	var err error
	curPw := a0.Pw
	if hasRekey(r.tr) {
		// the passphrase change writes to the database: a manager of its own
		envCache.mu.Lock()
		envCache.n++
		id := envCache.n
		envCache.mu.Unlock()
		env, err = newMgrEnv(filepath.Join(root, fmt.Sprintf("rekey%d", id)), []byte(a0.Pw), []byte(a0.Pw),
			&waddrmgr.ScryptOptions{N: a0.N, R: a0.R, P: a0.P})
		if err == nil {
			defer env.close()
		}
	} else {
		env, err = envCache.get(root, a0)
		if err == nil {
			defer envCache.put(a0, env)
		}
	}
	if err != nil {
		r.n++
		r.mismatch(0, "call", "", "waddrmgr.Create/Open failed", err.Error(), "ok")
		return
	}
	if err := env.unlock([]byte(a0.Pw)); err != nil {
		r.n++
		r.mismatch(0, "passphrase", "rejected", "Unlock with the creation passphrase failed", err.Error(), "ok")
		return
	}
	var probe, probePt []byte
	for si := 1; si < len(r.tr.Steps); si++ {
		st := &r.tr.Steps[si]
		want := retString(st)
		stop := r.guard(si, func() {
			switch st.Op {
			case "SealProbe":
				var a lenArgs
				json.Unmarshal(st.A, &a)
				probePt = plaintext(a.Len)
				out, err := env.mgr.Encrypt(waddrmgr.CKTPrivate, probePt)
				r.n++
				if err != nil {
					r.mismatch(si, "call", "", "Manager.Encrypt(CKTPrivate) failed while unlocked", err.Error(), "ok")
					return
				}
				probe = out
			case "Zero":
				env.mgr.Lock()
			case "Rekey":
				// both master keys move to the new passphrase (the manager is unlocked here: the
				// model's context is the canonical one)
				var a pwArgs
				json.Unmarshal(st.A, &a)
				opts := &waddrmgr.ScryptOptions{N: a0.N, R: a0.R, P: a0.P}
				err := walletdb.Update(env.db, func(tx walletdb.ReadWriteTx) error {
					ns := tx.ReadWriteBucket(nsKey)
					if err := env.mgr.ChangePassphrase(ns, []byte(curPw), []byte(a.Pw), true, opts); err != nil {
						return err
					}
					return env.mgr.ChangePassphrase(ns, []byte(curPw), []byte(a.Pw), false, opts)
				})
				r.n++
				if err != nil {
					r.mismatch(si, "call", "", fmt.Sprintf("ChangePassphrase(%q -> %q) failed on an unlocked manager", curPw, a.Pw), err.Error(), "ok")
					return
				}
				curPw = a.Pw
				env.pub = []byte(a.Pw)
			case "DeriveKey", "Restart":
				var a pwArgs
				json.Unmarshal(st.A, &a)
				if st.Op == "Restart" {
					if err := env.reopen(); err != nil {
						r.n++
						r.mismatch(si, "passphrase", "rejected", "reopening the manager with its public passphrase failed", err.Error(), "ok")
						return
					}
				}
				err := env.unlock([]byte(a.Pw))
				r.n++
				r.comparePass(si, "passphrase", want, err, fmt.Sprintf("Manager.Unlock(%q)", a.Pw))
				err = env.tryOpen([]byte(a.Pw))
				r.n++
				r.comparePass(si, "passphrase", want, err, fmt.Sprintf("waddrmgr.Open(public passphrase %q)", a.Pw))
			case "OpenProbe":
				out, err := env.mgr.Decrypt(waddrmgr.CKTPrivate, probe)
				r.n++
				switch {
				case want == "error" && err == nil:
					r.mismatch(si, "accepts", "", "Manager.Decrypt(CKTPrivate) returned data although the private key was never correctly derived", "ok", "error")
				case want == "ok" && err != nil:
					r.mismatch(si, "rejects", "", "Manager.Decrypt(CKTPrivate) fails although the passphrase was accepted", err.Error(), "ok")
				case want == "ok" && !bytes.Equal(out, probePt):
					r.mismatch(si, "bytes", "", "Manager.Decrypt returned other bytes than were encrypted", fmt.Sprintf("%x", out), fmt.Sprintf("%x", probePt))
				}
			case "Marshal":
			case "Unmarshal":
				var a lenArgs
				json.Unmarshal(st.A, &a)
				if a.Len != blobLen {
					return // the running key is unchanged in the model
				}
				if err := env.reopen(); err != nil {
					r.n++
					r.mismatch(si, "passphrase", "rejected", "reopening the manager with its public passphrase failed", err.Error(), "ok")
				}
			default:
				r.rep.AddError("trace %d: unknown op %q in mode pass (manager)", r.idx, st.Op)
			}
		})
		if stop {
			return
		}
	}
}

type envCacheT struct {
	mu   sync.Mutex
	free map[pwArgs][]*mgrEnv
	all  []*mgrEnv
	n    int
}

var envCache = &envCacheT{free: map[pwArgs][]*mgrEnv{}}

func (c *envCacheT) get(root string, a pwArgs) (*mgrEnv, error) {
	c.mu.Lock()
	if l := c.free[a]; len(l) > 0 {
		e := l[len(l)-1]
		c.free[a] = l[:len(l)-1]
		c.mu.Unlock()
		// fresh handle: locked, nothing cached
		e.mgr.Close()
		e.mgr = nil
		if err := e.open(e.pub); err != nil {
			return nil, err
		}
		return e, nil
	}
	c.n++
	id := c.n
	c.mu.Unlock()
	e, err := newMgrEnv(filepath.Join(root, fmt.Sprintf("p%d", id)), []byte(a.Pw), []byte(a.Pw),
		&waddrmgr.ScryptOptions{N: a.N, R: a.R, P: a.P})
	if err != nil {
		return nil, err
	}
	c.mu.Lock()
	c.all = append(c.all, e)
	c.mu.Unlock()
	return e, nil
}

func (c *envCacheT) put(a pwArgs, e *mgrEnv) {
	if e.mgr == nil || e.db == nil {
		return
	}
	c.mu.Lock()
	c.free[a] = append(c.free[a], e)
	c.mu.Unlock()
}

// fanOut runs n copies of this program, each replaying every n-th behaviour,
// and merges their reports.
func fanOut(in, out string, n, workers, mgrEvery int) int {
	type child struct {
		cmd *exec.Cmd
		out string
		log bytes.Buffer
	}
	per := workers / n
	if per < 1 {
		per = 1
	}
	var cs []*child
	for i := 0; i < n; i++ {
		c := &child{out: fmt.Sprintf("%s.%d", out, i)}
		c.cmd = exec.Command(os.Args[0], "-in", in, "-out", c.out, "-workers", fmt.Sprint(per), "-mgr-every", fmt.Sprint(mgrEvery),
			"-seed", fmt.Sprint(seed), "-shard", fmt.Sprint(i), "-nshards", fmt.Sprint(n))
		c.cmd.Stdout, c.cmd.Stderr = &c.log, &c.log
		// one P per replaying goroutine: the forced collections then do not
		// wake sixteen idle mark workers each
		c.cmd.Env = append(os.Environ(), fmt.Sprintf("GOMAXPROCS=%d", per))
		if err := c.cmd.Start(); err != nil {
			fmt.Fprintln(os.Stderr, "fan-out:", err)
			return 2
		}
		cs = append(cs, c)
	}
	var sum struct {
		Traces     int                 `json:"traces"`
		Steps      int                 `json:"steps"`
		Checks     int                 `json:"checks"`
		Nontrivial int                 `json:"distinct_nontrivial"`
		Rule       string              `json:"rule"`
		Mismatches []common.Mismatch   `json:"mismatches"`
		NMismatch  int                 `json:"n_mismatch"`
		Errors     []string            `json:"errors"`
		Samples    []interface{}       `json:"samples"`
		Extra      map[string]int      `json:"extra"`
	}
	sum.Extra = map[string]int{}
	code := 0
	for _, c := range cs {
		if err := c.cmd.Wait(); err != nil {
			fmt.Fprintf(os.Stderr, "fan-out: child failed: %v\n%s\n", err, c.log.String())
			code = 2
			continue
		}
		b, err := os.ReadFile(c.out)
		if err != nil {
			fmt.Fprintln(os.Stderr, "fan-out:", err)
			code = 2
			continue
		}
		os.Remove(c.out)
		var r common.Report
		if err := json.Unmarshal(b, &r); err != nil {
			fmt.Fprintln(os.Stderr, "fan-out:", err)
			code = 2
			continue
		}
		sum.Traces += r.Traces
		sum.Steps += r.Steps
		sum.Checks += r.Checks
		sum.Nontrivial += r.Nontrivial // shards replay disjoint behaviours
		sum.Rule = r.Rule
		sum.NMismatch += r.NMismatch
		if len(sum.Mismatches) < 200 {
			sum.Mismatches = append(sum.Mismatches, r.Mismatches...)
		}
		sum.Errors = append(sum.Errors, r.Errors...)
		if len(sum.Samples) < 3 {
			sum.Samples = append(sum.Samples, r.Samples...)
		}
		for k, v := range r.Extra {
			sum.Extra[k] += v
		}
	}
	if len(sum.Samples) > 3 {
		sum.Samples = sum.Samples[:3]
	}
	b, _ := json.MarshalIndent(&sum, "", " ")
	if err := os.WriteFile(out, b, 0644); err != nil {
		fmt.Fprintln(os.Stderr, "fan-out:", err)
		return 2
	}
	return code
}

// ---------- main ----------

type mgrPair struct{ unlocked, locked *mgrEnv }

func observation(op string) bool {
	switch op {
	case "Decrypt", "OpenProbe", "DeriveKey", "Restart", "Unmarshal", "EncryptAgain", "Marshal":
		return true
	}
	return false
}

func main() {
	in := flag.String("in", "", "ndjson behaviours")
	out := flag.String("out", "", "report file")
	workers := flag.Int("workers", 16, "parallel replays")
	mgrEvery := flag.Int("mgr-every", 1, "passphrase behaviours: bind every n-th eligible behaviour to a real manager")
	flag.Int64Var(&seed, "seed", 1, "seed of the plaintext contents")
	procs := flag.Int("procs", 1, "split the input over n processes (snacl's DeriveKey forces a garbage collection per call, which serialises goroutines of one process)")
	shard := flag.Int("shard", 0, "internal: index of this process")
	nshards := flag.Int("nshards", 1, "internal: number of processes")
	flag.Parse()

	if *procs > 1 {
		os.Exit(fanOut(*in, *out, *procs, *workers, *mgrEvery))
	}

	rep := common.NewReport()
	rep.Rule = "cases are the transitions of the TLC state graph of spec/Seal.tla (each with the shortest history reaching it); " +
		"non-trivial = distinct (history, observation) pairs whose last step is an observation with a prescribed result " +
		"(Decrypt, OpenProbe, DeriveKey, Restart, Unmarshal, Marshal, EncryptAgain) and whose prescribed result is a rejection, " +
		"or an acceptance reached after a modification was undone, a restart or a re-derivation"
	fail := func(err error) {
		fmt.Fprintln(os.Stderr, err)
		os.Exit(2)
	}
	root, err := common.ScratchRoot("seal")
	if err != nil {
		fail(err)
	}
	defer os.RemoveAll(root)

	seedBytes := sha256.Sum256([]byte(fmt.Sprintf("verif-seal-root-%d", seed)))
	rootKey, err = hdkeychain.NewMaster(seedBytes[:], netParms)
	if err != nil {
		fail(err)
	}
	for k := 1; k <= 3; k++ {
		if rawKeys[k], err = snacl.GenerateCryptoKey(); err != nil {
			fail(err)
		}
	}
	pool := make(chan *mgrPair, *workers)
	var pairs []*mgrPair
	needPairs := *workers
	if *nshards > 1 {
		needPairs = 1 // many processes: one pair each (Manager.Encrypt/Decrypt are mutex-protected and take microseconds)
	}
	for w := 0; w < needPairs; w++ {
		u, err := newMgrEnv(filepath.Join(root, fmt.Sprintf("u%d", w)), []byte("pub"), []byte("priv"), &waddrmgr.FastScryptOptions)
		if err != nil {
			fail(fmt.Errorf("manager setup: %v", err))
		}
		if err := u.unlock([]byte("priv")); err != nil {
			fail(fmt.Errorf("manager unlock: %v", err))
		}
		l, err := newMgrEnv(filepath.Join(root, fmt.Sprintf("l%d", w)), []byte("pub"), []byte("priv"), &waddrmgr.FastScryptOptions)
		if err != nil {
			fail(fmt.Errorf("manager setup: %v", err))
		}
		p := &mgrPair{u, l}
		pairs = append(pairs, p)
		pool <- p
	}

	err = common.ForEachLine(*in, *workers, func(idx int, line []byte) {
		if idx%*nshards != *shard {
			return
		}
		var tr Trace
		if err := json.Unmarshal(line, &tr); err != nil {
			rep.AddError("trace %d: %v", idx, err)
			return
		}
		if len(tr.Steps) == 0 {
			return
		}
		checks := 0
		switch tr.Mode {
		case "aead", "random":
			r := &runner{rep: rep, idx: idx, tr: &tr, level: "snacl"}
			r.replayAead(snaclSealer{})
			checks += r.n
			p := <-pool
			r = &runner{rep: rep, idx: idx, tr: &tr, level: "mgr"}
			r.replayAead(mgrSealer{p.unlocked.mgr})
			checks += r.n
			onlyPub := true
			for i := range tr.Steps {
				if tr.Steps[i].Op == "Encrypt" || tr.Steps[i].Op == "Decrypt" {
					var a encArgs
					json.Unmarshal(tr.Steps[i].A, &a)
					if a.K != 1 {
						onlyPub = false
					}
				}
			}
			if onlyPub {
				r = &runner{rep: rep, idx: idx, tr: &tr, level: "mgr-locked"}
				r.replayAead(mgrSealer{p.locked.mgr})
				checks += r.n
				rep.Inc("replayed_on_locked_manager", 1)
			}
			pool <- p
			rep.Inc("replayed_on_unlocked_manager", 1)
		case "pass":
			r := &runner{rep: rep, idx: idx, tr: &tr, level: "snacl"}
			r.replayPassSnacl()
			checks += r.n
			if a0, ok := mgrEligible(&tr); ok && *mgrEvery > 0 && idx%*mgrEvery == 0 {
				r = &runner{rep: rep, idx: idx, tr: &tr, level: "mgr"}
				r.replayPassMgr(root, a0)
				checks += r.n
				rep.Inc("passphrase_behaviours_on_manager", 1)
			}
		case "mgrconc":
			if *workers > 1 {
				rep.AddError("trace %d: mode mgrconc needs -workers 1 (the gate hook is a package variable)", idx)
				return
			}
			p := <-pool
			checks += replayMgrConc(idx, &tr, p.unlocked, rep)
			pool <- p
			rep.Inc("manager_concurrency_behaviours", 1)
			// non-trivial: a Lock is called while the worker is inside the section
			inSection, raced := false, false
			for i := range tr.Steps {
				switch tr.Steps[i].Op {
				case "Begin":
					inSection = retString(&tr.Steps[i]) == "parked"
				case "Finish":
					inSection = false
				case "LockCall":
					if inSection {
						raced = true
					}
				}
			}
			if raced {
				rep.Nontriv(string(line))
				if len(tr.Steps) >= 4 {
					rep.Sample(json.RawMessage(line))
				}
			}
			rep.Count(1, len(tr.Steps), checks)
			return
		default:
			rep.AddError("trace %d: unknown mode %q", idx, tr.Mode)
			return
		}
		last := &tr.Steps[len(tr.Steps)-1]
		if observation(last.Op) {
			want := retString(last)
			nontriv := want == "error"
			if !nontriv {
				for i := range tr.Steps[:len(tr.Steps)-1] {
					switch tr.Steps[i].Op {
					case "Flip", "Truncate", "Extend", "Zero", "Restart", "Unmarshal", "DeriveKey", "FlipBlob", "Rekey":
						nontriv = true
					}
				}
			}
			if nontriv {
				rep.Nontriv(string(line))
			}
			rep.Inc("expect_"+want, 1)
		}
		rep.Count(1, len(tr.Steps), checks)
		if observation(last.Op) && len(tr.Steps) >= 3 {
			rep.Sample(json.RawMessage(line))
		}
	})
	if err != nil {
		rep.AddError("input: %v", err)
	}
	for _, p := range pairs {
		p.unlocked.close()
		p.locked.close()
	}
	rep.Inc("managers_created_for_passphrase_behaviours", envCache.n)
	for _, e := range envCache.all {
		e.close()
	}
	if err := rep.Write(*out); err != nil {
		fail(err)
	}
}
