// replay-author runs the cases TLC enumerates from spec/Author.tla through the
// real txauthor.NewUnsignedTransaction (built from /repo's working tree with
// its txsizes and txrules), compares the outcome with the one the specification
// predicts, then signs the transaction with real keys, verifies every input
// with btcd's script engine and measures the real virtual size, against which
// the fee-rate sentence of the property is checked.
package main

import (
	"bytes"
	"crypto/sha1"
	"crypto/sha256"
	"encoding/json"
	"errors"
	"flag"
	"fmt"
	"os"
	"sort"
	"strings"
	"sync"

	"github.com/btcsuite/btcd/btcec/v2"
	"github.com/btcsuite/btcd/btcec/v2/schnorr"
	"github.com/btcsuite/btcd/btcutil"
	"github.com/btcsuite/btcd/chaincfg"
	"github.com/btcsuite/btcd/chaincfg/chainhash"
	"github.com/btcsuite/btcd/mempool"
	"github.com/btcsuite/btcd/txscript"
	"github.com/btcsuite/btcd/wire"
	"github.com/btcsuite/btcwallet/wallet/txauthor"

	"verif/harness/internal/common"
)

// ---------- case format (CaseExport of spec/Author.tla) ----------

type Exp struct {
	Res        string `json:"res"` // ok | insufficient
	Affordable bool   `json:"affordable"`
	Nin        int    `json:"nin"`
	Fee        int64  `json:"fee"`
	Change     int64  `json:"change"` // 0 = no change output
	Est        int64  `json:"est"`
	Iters      int    `json:"iters"`
	Dust       int64  `json:"dust"`
	Upper      int64  `json:"upper"`
}

type Case struct {
	Fam    string   `json:"fam"`
	Tag    string   `json:"tag"`
	Types  []string `json:"types"`
	Vals   []int64  `json:"vals"`
	Nout   int      `json:"nout"`
	Otype  string   `json:"otype"`
	Olen   int      `json:"olen"`
	Ov     int64    `json:"ov"`
	Target int64    `json:"target"`
	Ctype  string   `json:"ctype"`
	Clen   int      `json:"clen"`
	Rate   int64    `json:"rate"`
	J      int      `json:"j"`
	Dk     string   `json:"dk"`
	Exp    Exp      `json:"exp"`
}

// ---------- keys and scripts ----------

var (
	seed   int64
	params = &chaincfg.RegressionNetParams
)

type coinKey struct {
	priv       *btcec.PrivateKey
	compressed bool
}

type keyring struct {
	mu      sync.RWMutex
	byAddr  map[string]coinKey
	scripts map[string][]byte // "<type>/<idx>" -> pkScript
}

var ring = &keyring{byAddr: map[string]coinKey{}, scripts: map[string][]byte{}}

func privFor(idx int) *btcec.PrivateKey {
	h := sha256.Sum256([]byte(fmt.Sprintf("verif-author-key-%d-%d", seed, idx)))
	p, _ := btcec.PrivKeyFromBytes(h[:])
	return p
}

// coinScript returns the previous-output script of coin idx of the given
// input type and registers the key under the address the signer will ask for.
func (r *keyring) coinScript(typ string, idx int) ([]byte, error) {
	id := fmt.Sprintf("%s/%d", typ, idx)
	r.mu.RLock()
	s, ok := r.scripts[id]
	r.mu.RUnlock()
	if ok {
		return s, nil
	}
	priv := privFor(idx)
	pub := priv.PubKey()
	var addr btcutil.Address
	var err error
	compressed := true
	switch typ {
	case "K":
		addr, err = btcutil.NewAddressPubKeyHash(btcutil.Hash160(pub.SerializeCompressed()), params)
	case "U":
		compressed = false
		addr, err = btcutil.NewAddressPubKeyHash(btcutil.Hash160(pub.SerializeUncompressed()), params)
	case "W":
		addr, err = btcutil.NewAddressWitnessPubKeyHash(btcutil.Hash160(pub.SerializeCompressed()), params)
	case "N":
		var w btcutil.Address
		w, err = btcutil.NewAddressWitnessPubKeyHash(btcutil.Hash160(pub.SerializeCompressed()), params)
		if err == nil {
			var prog []byte
			prog, err = txscript.PayToAddrScript(w)
			if err == nil {
				addr, err = btcutil.NewAddressScriptHash(prog, params)
			}
		}
	case "T":
		out := txscript.ComputeTaprootKeyNoScript(pub)
		addr, err = btcutil.NewAddressTaproot(schnorr.SerializePubKey(out), params)
	default:
		err = fmt.Errorf("unknown input type %q", typ)
	}
	if err != nil {
		return nil, err
	}
	s, err = txscript.PayToAddrScript(addr)
	if err != nil {
		return nil, err
	}
	r.mu.Lock()
	r.scripts[id] = s
	r.byAddr[addr.EncodeAddress()] = coinKey{priv, compressed}
	r.mu.Unlock()
	return s, nil
}

// secrets implements txauthor.SecretsSource over the key ring.
type secrets struct{}

func (secrets) ChainParams() *chaincfg.Params { return params }
func (secrets) GetKey(a btcutil.Address) (*btcec.PrivateKey, bool, error) {
	ring.mu.RLock()
	k, ok := ring.byAddr[a.EncodeAddress()]
	ring.mu.RUnlock()
	if !ok {
		return nil, false, fmt.Errorf("harness: no key for %s", a.EncodeAddress())
	}
	return k.priv, k.compressed, nil
}
func (secrets) GetScript(a btcutil.Address) ([]byte, error) {
	return nil, fmt.Errorf("harness: no script for %s", a.EncodeAddress())
}

// outScript builds a standard output script of the given type whose hash
// bytes are a function of n.
func outScript(typ string, n int) ([]byte, error) {
	h := sha256.Sum256([]byte(fmt.Sprintf("verif-author-out-%s-%d", typ, n)))
	switch typ {
	case "P2PKH":
		return append(append([]byte{0x76, 0xa9, 0x14}, h[:20]...), 0x88, 0xac), nil
	case "P2SH":
		return append(append([]byte{0xa9, 0x14}, h[:20]...), 0x87), nil
	case "P2WPKH":
		return append([]byte{0x00, 0x14}, h[:20]...), nil
	case "P2WSH":
		return append([]byte{0x00, 0x20}, h[:]...), nil
	case "P2TR":
		return append([]byte{0x51, 0x20}, h[:]...), nil
	}
	return nil, fmt.Errorf("unknown output type %q", typ)
}

// ---------- one case ----------

const maxSourceCalls = 2000

type result struct {
	atx   *txauthor.AuthoredTx
	err   error
	panic interface{}
	calls int
}

type runner struct {
	rep  *common.Report
	id   [20]byte // sha1 of the case record
	idx  int
	c    *Case
	line []byte
	n    int
}

func (r *runner) mismatch(class, what string, obs, exp interface{}) {
	m := common.Mismatch{Prop: "C07", Sig: "author:" + class + ":" + r.c.Tag, Trace: r.idx, Step: 0,
		What: what, Observed: obs, Expected: exp, Behav: json.RawMessage(r.line)}
	r.rep.AddMismatch(m)
}

func (r *runner) describe() string {
	c := r.c
	return fmt.Sprintf("inputs %s, %d x %s outputs totalling %d, change %s, %d sat/kvB", runs(c.Types, c.Vals), c.Nout, c.Otype, c.Target, c.Ctype, c.Rate)
}

// runs renders the offered coins compactly: type x count (values first..last).
func runs(types []string, vals []int64) string {
	if len(types) <= 12 {
		return fmt.Sprintf("%v values %v", types, vals)
	}
	var sb strings.Builder
	for i := 0; i < len(types); {
		j := i
		for j < len(types) && types[j] == types[i] {
			j++
		}
		fmt.Fprintf(&sb, "%sx%d(%d..%d) ", types[i], j-i, vals[i], vals[j-1])
		i = j
	}
	return strings.TrimSpace(sb.String())
}

func (r *runner) run() {
	c := r.c
	if len(c.Types) != len(c.Vals) {
		r.rep.AddError("case %d: %d types but %d values", r.idx, len(c.Types), len(c.Vals))
		return
	}
	// offered coins
	type coin struct {
		op     wire.OutPoint
		val    int64
		script []byte
		typ    string
	}
	coins := make([]coin, len(c.Types))
	byOp := map[wire.OutPoint]*coin{}
	for i := range coins {
		s, err := ring.coinScript(c.Types[i], i)
		if err != nil {
			r.rep.AddError("case %d: %v", r.idx, err)
			return
		}
		// everything random-looking is a function of (seed, case content), so that a replayed case is signed identically
		h := sha256.Sum256([]byte(fmt.Sprintf("verif-author-prev-%d-%x-%d", seed, r.id, i)))
		coins[i] = coin{op: wire.OutPoint{Hash: chainhash.Hash(h), Index: uint32(i % 7)}, val: c.Vals[i], script: s, typ: c.Types[i]}
		byOp[coins[i].op] = &coins[i]
	}
	// requested outputs: all but the last are worth ov, the last takes the rest
	// (the request slice has spare capacity, as a slice built with append usually has: the authored transaction
	// must not share memory with it)
	outputs := make([]*wire.TxOut, c.Nout, c.Nout+3)
	for i := range outputs {
		s, err := outScript(c.Otype, i)
		if err != nil {
			r.rep.AddError("case %d: %v", r.idx, err)
			return
		}
		v := c.Ov
		if i == c.Nout-1 {
			v = c.Target - int64(c.Nout-1)*c.Ov
		}
		outputs[i] = wire.NewTxOut(v, s)
	}
	wanted := make([]wire.TxOut, len(outputs))
	for i, o := range outputs {
		wanted[i] = wire.TxOut{Value: o.Value, PkScript: append([]byte(nil), o.PkScript...)}
	}
	changeScript, err := outScript(c.Ctype, 1_000_000+int(r.id[1]))
	if err != nil {
		r.rep.AddError("case %d: %v", r.idx, err)
		return
	}
	changeCalls := 0
	cs := &txauthor.ChangeSource{
		NewScript:  func() ([]byte, error) { changeCalls++; return changeScript, nil },
		ScriptSize: len(changeScript),
	}
	// the input source hands out coins in the given order until the total
	// reaches the target (the contract of wallet.makeInputSource)
	var res result
	next := 0
	var total btcutil.Amount
	var ins []*wire.TxIn
	var vals []btcutil.Amount
	var scripts [][]byte
	source := func(target btcutil.Amount) (btcutil.Amount, []*wire.TxIn, []btcutil.Amount, [][]byte, error) {
		res.calls++
		if res.calls > maxSourceCalls {
			return 0, nil, nil, nil, errNoTermination
		}
		for total < target && next < len(coins) {
			cn := &coins[next]
			next++
			total += btcutil.Amount(cn.val)
			ins = append(ins, wire.NewTxIn(&cn.op, nil, nil))
			vals = append(vals, btcutil.Amount(cn.val))
			scripts = append(scripts, cn.script)
		}
		return total, ins, vals, scripts, nil
	}
	func() {
		defer func() {
			if x := recover(); x != nil {
				res.panic = x
			}
		}()
		res.atx, res.err = txauthor.NewUnsignedTransaction(outputs, btcutil.Amount(c.Rate), source, cs)
	}()
	r.n++
	if res.panic != nil {
		r.mismatch("panic", "NewUnsignedTransaction panicked: "+r.describe(), fmt.Sprint(res.panic), c.Exp.Res)
		return
	}
	if errors.Is(res.err, errNoTermination) {
		r.mismatch("predict:termination", fmt.Sprintf("NewUnsignedTransaction asked the input source more than %d times (the specification's loop ends after %d iterations): %s",
			maxSourceCalls, c.Exp.Iters, r.describe()), "no result", c.Exp.Res)
		return
	}
	var ise txauthor.InputSourceError
	insufficient := res.err != nil && errors.As(res.err, &ise)
	switch {
	case res.err != nil && !insufficient:
		r.mismatch("predict:res", "NewUnsignedTransaction failed: "+r.describe(), res.err.Error(), c.Exp.Res)
		return
	case insufficient && c.Exp.Res == "ok":
		r.mismatch("predict:res", fmt.Sprintf("insufficient funds reported, the specification authors a transaction with %d inputs, fee %d, change %d: %s",
			c.Exp.Nin, c.Exp.Fee, c.Exp.Change, r.describe()), "insufficient", "ok")
		return
	case !insufficient && c.Exp.Res == "insufficient":
		r.mismatch("predict:res", "a transaction was authored where the specification reports insufficient funds: "+r.describe(), "ok", "insufficient")
		// fall through to the property-level checks of the authored transaction
	case insufficient:
		r.n++
		if c.Exp.Affordable {
			var sum int64
			for _, v := range c.Vals {
				sum += v
			}
			// the signature names the offered input types, not the output boundary
			tag := r.c.Tag
			r.c.Tag = strings.Join(c.Types, "")
			defer func() { r.c.Tag = tag }()
			r.mismatch("insufficient:affordable", fmt.Sprintf("insufficient funds reported although the offered coins (%d sat) cover the outputs (%d sat) plus the fee of a transaction spending all of them: %s",
				sum, c.Target, r.describe()), "insufficient funds", "a transaction")
		}
		return
	}
	atx := res.atx
	tx := atx.Tx

	// --- conservation, measured on the real coins referenced by the inputs
	var sumIn int64
	unknown := 0
	seen := map[wire.OutPoint]bool{}
	for _, in := range tx.TxIn {
		cn := byOp[in.PreviousOutPoint]
		if cn == nil || seen[in.PreviousOutPoint] {
			unknown++
			continue
		}
		seen[in.PreviousOutPoint] = true
		sumIn += cn.val
	}
	var sumOut int64
	for _, o := range tx.TxOut {
		sumOut += o.Value
	}
	fee := sumIn - sumOut
	r.n++
	if unknown > 0 || int64(atx.TotalInput) != sumIn || len(atx.PrevInputValues) != len(tx.TxIn) || len(atx.PrevScripts) != len(tx.TxIn) {
		r.mismatch("conservation", "inputs of the authored transaction do not add up to the reported total: "+r.describe(),
			fmt.Sprintf("TotalInput=%d inputs=%d unknown/duplicate=%d", atx.TotalInput, len(tx.TxIn), unknown), fmt.Sprintf("sum of referenced coins %d", sumIn))
	}
	if fee < 0 {
		r.mismatch("conservation", "outputs exceed inputs: "+r.describe(), fee, ">= 0")
	}
	// --- requested outputs unchanged and in place, at most one more output
	r.n++
	changeAmt := int64(0)
	okOuts := len(tx.TxOut) >= c.Nout
	for i := 0; okOuts && i < c.Nout; i++ {
		if tx.TxOut[i].Value != wanted[i].Value || !bytes.Equal(tx.TxOut[i].PkScript, wanted[i].PkScript) ||
			outputs[i].Value != wanted[i].Value || !bytes.Equal(outputs[i].PkScript, wanted[i].PkScript) {
			okOuts = false
		}
	}
	if atx.ChangeIndex >= 0 {
		if len(tx.TxOut) != c.Nout+1 || atx.ChangeIndex != c.Nout || !bytes.Equal(tx.TxOut[c.Nout].PkScript, changeScript) {
			okOuts = false
		} else {
			changeAmt = tx.TxOut[c.Nout].Value
		}
	} else if len(tx.TxOut) != c.Nout {
		okOuts = false
	}
	if len(outputs) != c.Nout {
		okOuts = false
	}
	if !okOuts {
		r.mismatch("outputs", "requested outputs changed, moved, or unexpected extra outputs: "+r.describe(),
			fmt.Sprintf("%d outputs, change index %d", len(tx.TxOut), atx.ChangeIndex), fmt.Sprintf("%d requested outputs in place (+ change at the end)", c.Nout))
	}
	// --- prediction
	r.n += 3
	if len(tx.TxIn) != c.Exp.Nin && c.Exp.Res == "ok" {
		r.mismatch("predict:nin", "number of inputs consumed: "+r.describe(), len(tx.TxIn), c.Exp.Nin)
	}
	if fee != c.Exp.Fee && c.Exp.Res == "ok" {
		r.mismatch("predict:fee", fmt.Sprintf("fee (inputs - outputs) with %d inputs, specification's estimate %d vB: %s", len(tx.TxIn), c.Exp.Est, r.describe()), fee, c.Exp.Fee)
	}
	if changeAmt != c.Exp.Change && c.Exp.Res == "ok" {
		r.mismatch("predict:change", "change output amount (0 = none): "+r.describe(), changeAmt, c.Exp.Change)
	}
	// --- no dust or zero change (threshold computed by the specification)
	r.n++
	if atx.ChangeIndex >= 0 && (changeAmt <= 0 || changeAmt < c.Exp.Dust) {
		r.mismatch("dustchange", fmt.Sprintf("a change output of %d sat was added, dust threshold of a %s output is %d: %s", changeAmt, c.Ctype, c.Exp.Dust, r.describe()), changeAmt, fmt.Sprintf(">= %d or absent", c.Exp.Dust))
	}
	// --- upper bound: rate applied to the worst-case estimate plus one dust threshold
	if c.Exp.Res == "ok" && len(tx.TxIn) == c.Exp.Nin {
		r.n++
		if fee > c.Exp.Upper {
			r.mismatch("upper", fmt.Sprintf("fee above rate x worst-case estimate (%d vB) + dust threshold: %s", c.Exp.Est, r.describe()), fee, fmt.Sprintf("<= %d", c.Exp.Upper))
		}
	}
	// --- sign with real keys (the wallet randomises the change position first)
	if r.id[0]%2 == 1 && atx.ChangeIndex >= 0 {
		before := outMultiset(tx.TxOut)
		atx.RandomizeChangePosition()
		r.n++
		if outMultiset(tx.TxOut) != before || atx.ChangeIndex < 0 || atx.ChangeIndex >= len(tx.TxOut) ||
			!bytes.Equal(tx.TxOut[atx.ChangeIndex].PkScript, changeScript) || tx.TxOut[atx.ChangeIndex].Value != changeAmt {
			r.mismatch("outputs", "RandomizeChangePosition changed the outputs or lost track of the change output: "+r.describe(), atx.ChangeIndex, "a permutation")
		}
	}
	var signErr error
	func() {
		defer func() {
			if x := recover(); x != nil {
				signErr = fmt.Errorf("panic: %v", x)
			}
		}()
		signErr = atx.AddAllInputScripts(secrets{})
	}()
	r.n++
	if signErr != nil {
		r.mismatch("sign", "AddAllInputScripts failed: "+r.describe(), signErr.Error(), "signed")
		return
	}
	fetcher, err := txauthor.TXPrevOutFetcher(tx, atx.PrevScripts, atx.PrevInputValues)
	if err != nil {
		r.mismatch("sign", "previous outputs of the authored transaction are inconsistent: "+r.describe(), err.Error(), "consistent")
		return
	}
	hashes := txscript.NewTxSigHashes(tx, fetcher)
	for i, in := range tx.TxIn {
		cn := byOp[in.PreviousOutPoint]
		if cn == nil {
			continue
		}
		vm, err := txscript.NewEngine(cn.script, tx, i, txscript.StandardVerifyFlags, nil, hashes, cn.val, fetcher)
		if err == nil {
			err = vm.Execute()
		}
		r.n++
		if err != nil {
			m := common.Mismatch{Prop: "C07", Sig: "author:verify:" + cn.typ, Trace: r.idx, What: fmt.Sprintf("input %d (%s) of the signed transaction does not verify: %s", i, cn.typ, r.describe()),
				Observed: err.Error(), Expected: "valid", Behav: json.RawMessage(r.line)}
			r.rep.AddMismatch(m)
			return
		}
	}
	// --- the fee rate against the REAL signed virtual size
	vsize := mempool.GetTxVirtualSize(btcutil.NewTx(tx))
	need := c.Rate * vsize / 1000 // the relay-fee rule, integer
	r.n++
	if fee < need {
		r.mismatch("feerate", fmt.Sprintf("fee %d sat is below %d sat/kvB x real signed size %d vB = %d sat (the specification's worst-case estimate is %d vB and gives %d sat): %s",
			fee, c.Rate, vsize, need, c.Exp.Est, c.Exp.Fee, r.describe()), fee, fmt.Sprintf(">= %d", need))
	}
	if fee*1000 < c.Rate*vsize {
		r.rep.Inc("fee_below_exact_rate_times_vsize_by_integer_rounding", 1)
	}
	if c.Exp.Res == "ok" {
		switch d := c.Exp.Est - vsize; {
		case d < 0:
			r.rep.Inc("real_vsize_above_spec_estimate", 1)
		case d == 0:
			r.rep.Inc("real_vsize_equals_spec_estimate", 1)
		default:
			r.rep.Inc("real_vsize_below_spec_estimate", 1)
		}
	}
	r.rep.Inc("signed_and_verified", 1)
	r.rep.Inc("inputs_verified", len(tx.TxIn))

	// --- the same request slice is used for a second transaction (another change script): the first one stays what it was
	before := make([]wire.TxOut, len(tx.TxOut))
	for i, o := range tx.TxOut {
		before[i] = wire.TxOut{Value: o.Value, PkScript: append([]byte(nil), o.PkScript...)}
	}
	changeScript2, err := outScript(c.Ctype, 2_000_000+int(r.id[2]))
	if err != nil {
		return
	}
	cs2 := &txauthor.ChangeSource{NewScript: func() ([]byte, error) { return changeScript2, nil }, ScriptSize: len(changeScript2)}
	next2 := 0
	var total2 btcutil.Amount
	var ins2 []*wire.TxIn
	var vals2 []btcutil.Amount
	var scripts2 [][]byte
	calls2 := 0
	source2 := func(target btcutil.Amount) (btcutil.Amount, []*wire.TxIn, []btcutil.Amount, [][]byte, error) {
		calls2++
		if calls2 > maxSourceCalls {
			return 0, nil, nil, nil, errNoTermination
		}
		for total2 < target && next2 < len(coins) {
			cn := &coins[next2]
			next2++
			total2 += btcutil.Amount(cn.val)
			ins2 = append(ins2, wire.NewTxIn(&cn.op, nil, nil))
			vals2 = append(vals2, btcutil.Amount(cn.val))
			scripts2 = append(scripts2, cn.script)
		}
		return total2, ins2, vals2, scripts2, nil
	}
	func() {
		defer func() { recover() }()
		_, _ = txauthor.NewUnsignedTransaction(outputs, btcutil.Amount(c.Rate), source2, cs2)
	}()
	r.n++
	same := len(before) == len(tx.TxOut)
	for i := 0; same && i < len(before); i++ {
		if tx.TxOut[i].Value != before[i].Value || !bytes.Equal(tx.TxOut[i].PkScript, before[i].PkScript) {
			same = false
		}
	}
	if !same {
		r.mismatch("outputs", "the authored transaction changed when the same request slice was used for another transaction: "+r.describe(),
			"outputs of the first transaction differ afterwards", "unchanged")
	}
}

var errNoTermination = errors.New("harness: input source called too often")

func outMultiset(outs []*wire.TxOut) string {
	var xs []string
	for _, o := range outs {
		xs = append(xs, fmt.Sprintf("%d:%x", o.Value, o.PkScript))
	}
	sort.Strings(xs)
	h := sha1.New()
	for _, x := range xs {
		h.Write([]byte(x))
		h.Write([]byte{0})
	}
	return fmt.Sprintf("%x", h.Sum(nil))
}

// ---------- main ----------

func main() {
	in := flag.String("in", "", "ndjson cases")
	out := flag.String("out", "", "report file")
	workers := flag.Int("workers", 16, "parallel replays")
	flag.Int64Var(&seed, "seed", 1, "seed of the keys")
	flag.Parse()

	rep := common.NewReport()
	rep.Rule = "cases are enumerated by TLC from the families of spec/Author.tla (amounts placed one satoshi around the exact-fee and dust boundaries); " +
		"distinct = distinct case records; non-trivial = the specification authors a transaction (which is then signed, verified input by input and measured) " +
		"or reports insufficient funds with at least one coin offered"
	err := common.ForEachLine(*in, *workers, func(idx int, line []byte) {
		var c Case
		if err := json.Unmarshal(line, &c); err != nil {
			rep.AddError("case %d: %v", idx, err)
			return
		}
		// identity of the case: its record without the expectation (re-serialised records of a replay file keep it)
		ident := c
		ident.Exp = Exp{}
		ib, _ := json.Marshal(&ident)
		r := &runner{rep: rep, idx: idx, c: &c, line: line, id: sha1.Sum(ib)}
		func() {
			defer func() {
				if x := recover(); x != nil {
					r.mismatch("panic", "panic while replaying: "+r.describe(), fmt.Sprint(x), c.Exp.Res)
				}
			}()
			r.run()
		}()
		rep.Count(1, 1, r.n)
		rep.Inc("predicted_"+c.Exp.Res, 1)
		rep.Inc("family_"+c.Fam, 1)
		if c.Exp.Res == "ok" || len(c.Types) > 0 {
			h := sha1.Sum(line)
			rep.Nontriv(string(h[:]))
		}
		if len(c.Types) >= 2 && len(c.Types) <= 6 && c.Exp.Res == "ok" {
			rep.Sample(json.RawMessage(line))
		}
	})
	if err != nil {
		rep.AddError("input: %v", err)
	}
	if err := rep.Write(*out); err != nil {
		fmt.Fprintln(os.Stderr, err)
		os.Exit(2)
	}
}
