// trace-queue exercises the real chain.ConcurrentQueue (built from /repo's
// working tree with -tags verif) under many producer/consumer/Stop schedules,
// records through chain.VerifQueueHook what the worker goroutine did, and
// writes the recorded runs as one ndjson file that spec/QueueTrace.tla
// validates against spec/Queue.tla with TLC (property C18).
//
// Which facts are recorded, and why they are sound to use:
//   - the worker's events (in/handoff/push/enq/out/quit/exit with the item and
//     overflow.Len()) are emitted by the single worker goroutine after each of
//     its operations, so their order IS the order of the operations; they get
//     a per-queue sequence number k;
//   - the consumer's received sequence is ordered in itself (one goroutine);
//   - the producer's number of completed sends;
//   - "st": Stop() had returned before the hook call for this event returned,
//     so every LATER operation of the worker ran with quit closed.
//
// Nothing is merged by wall clock. Besides the recording the driver asserts
// the end-to-end facts directly: received == sent (a prefix of it when the
// queue was stopped mid-stream), the producer completes 10^4 sends with the
// consumer absent, and the worker's "exit" follows Stop. Time-outs decide a
// verdict only together with a goroutine dump that shows the worker parked
// inside chain/queue.go.
package main

import (
	"crypto/sha1"
	"encoding/json"
	"flag"
	"fmt"
	"math/rand"
	"os"
	"regexp"
	"runtime"
	"strconv"
	"strings"
	"sync"
	"sync/atomic"
	"time"

	"github.com/btcsuite/btcwallet/chain"

	"verif/harness/internal/common"
)

// ---------- recording ----------

// payload is what travels through the queue: distinguishable per run and per
// position in the sending order.
type payload struct {
	run  int
	prod int
	k    int
}

type event struct {
	Ev   string `json:"ev"`
	Run  int    `json:"run"`
	K    int    `json:"k"`    // per-queue sequence number of the worker event (1-based)
	Item int    `json:"item"` // position of the item in the sending order; 0 = none, -1 = foreign value
	Ov   int    `json:"ov"`   // overflow.Len() after the operation
	St   bool   `json:"st"`   // Stop() had returned before this event's hook call returned
}

type recorder struct {
	run     int
	mu      sync.Mutex
	events  []event
	stopped atomic.Bool
	exit    chan struct{}
	gid     atomic.Int64 // goroutine id of the worker, learnt at its first event
	gateAt  int          // scenario.GateInAt
	// derived counters, protected by mu
	nIn, nOut int
	lastEv    string
	lastOv    int
}

var recorders sync.Map // *chain.ConcurrentQueue -> *recorder

var gidRe = regexp.MustCompile(`^goroutine (\d+) \[`)

func curGoroutineID() int64 {
	var buf [64]byte
	n := runtime.Stack(buf[:], false)
	m := gidRe.FindSubmatch(buf[:n])
	if m == nil {
		return 0
	}
	id, _ := strconv.ParseInt(string(m[1]), 10, 64)
	return id
}

func hook(q *chain.ConcurrentQueue, ev string, item interface{}, ov int) {
	v, ok := recorders.Load(q)
	if !ok {
		return
	}
	r := v.(*recorder)
	if r.gid.Load() == 0 {
		r.gid.Store(curGoroutineID())
	}
	idx := 0
	if item != nil {
		if p, ok := item.(*payload); ok && p.run == r.run {
			idx = p.k
		} else {
			idx = -1
		}
	}
	if ev == "in" && r.gateAt != 0 && idx == r.gateAt {
		// schedule control: pausing the worker here is one of its legal schedules
		waitUntil(r.stopped.Load, exitTimeout)
	}
	// read before the hook returns: every LATER operation of the worker starts after this load
	st := r.stopped.Load()
	r.mu.Lock()
	r.events = append(r.events, event{Ev: ev, Run: r.run, K: len(r.events) + 1, Item: idx, Ov: ov, St: st})
	switch ev {
	case "in", "enq":
		r.nIn++
	case "handoff", "out":
		r.nOut++
	}
	r.lastEv, r.lastOv = ev, ov
	r.mu.Unlock()
	if ev == "exit" {
		close(r.exit)
	}
}

// ---------- scenarios ----------

type scenario struct {
	Name           string `json:"name"`
	B              int    `json:"B"`
	N              int    `json:"n"`
	Seed           int64  `json:"seed"`
	ProdDelay      int    `json:"prodDelay"`      // max microseconds before a send (0 = none)
	ProdBurst      int    `json:"prodBurst"`      // delay only before every ProdBurst-th send (0/1 = every send)
	ConsDelay      int    `json:"consDelay"`      // max microseconds before a receive (0 = none)
	ConsStartAfter int    `json:"consStartAfter"` // the consumer starts once that many sends completed
	ConsAbsent     bool   `json:"consAbsent"`     // the consumer only drains after the worker exited
	StopAfterSent  int    `json:"stopAfterSent"`  // -1: Stop after everything was delivered; m: Stop once m sends completed
	HoldAtStop     bool   `json:"holdAtStop"`     // the producer offers item m+1 only after Stop() has returned
	GateInAt       int    `json:"gateInAt"`       // the worker is held (inside the hook of this item's "in" event, i.e. between the outer receive and the inner select) until Stop() has returned; 0 = never
}

func pick(rng *rand.Rand, lo, hi int) int { return lo + rng.Intn(hi-lo+1) }

func makeScenario(seed int64, idx int) scenario {
	rng := rand.New(rand.NewSource(seed*1_000_003 + int64(idx)*7919 + 17))
	B := idx % 4
	n := B + pick(rng, 1, 10) // bursts always exceed the buffer
	if rng.Intn(20) == 0 {
		n = B + pick(rng, 20, 40)
	}
	s := scenario{B: B, N: n, Seed: int64(rng.Int31()), StopAfterSent: -1}
	switch (idx / 4) % 8 {
	case 0:
		s.Name = "fast"
	case 1:
		s.Name = "slow-consumer"
		s.ConsDelay = 200
	case 2:
		s.Name = "slow-producer"
		s.ProdDelay = 100
	case 3:
		s.Name = "absent-then-drain"
		s.ConsStartAfter = n
	case 4:
		s.Name = "late-consumer"
		s.ConsStartAfter = pick(rng, 1, n)
		s.ConsDelay, s.ProdDelay = 60, 30
	case 5:
		s.Name = "bursty"
		s.ProdDelay, s.ProdBurst = 150, B+pick(rng, 2, 4)
		s.ConsDelay = 80
	case 6:
		s.Name = "stop-mid"
		s.StopAfterSent = pick(rng, 0, n)
		s.ConsDelay = 100
		if rng.Intn(2) == 0 {
			s.ConsStartAfter = pick(rng, 0, n)
		}
		s.HoldAtStop = rng.Intn(2) == 0
	case 7:
		s.Name = "stop-full"
		s.ConsAbsent = true
		if rng.Intn(2) == 0 {
			// chanOut gets exactly full; the worker receives item B+1 and is held before its inner
			// select until Stop() has returned: chanOut full and quit closed => `case <-quit`, never default
			s.GateInAt = B + 1
			s.StopAfterSent = B + 1
			s.N = B + 2
		} else {
			// overflow non-empty when Stop is called; the next offer meets a closed quit
			m := B + pick(rng, 1, 3)
			s.StopAfterSent = m
			s.N = m + 2
			s.HoldAtStop = true
		}
	}
	return s
}

func delay(rng *rand.Rand, max int) {
	if max <= 0 {
		return
	}
	r := rng.Intn(max + 1)
	if r < max/4 {
		runtime.Gosched()
		return
	}
	time.Sleep(time.Duration(r) * time.Microsecond)
}

// waitUntil polls cond (cheap atomics) until it holds or the deadline passes.
func waitUntil(cond func() bool, d time.Duration) bool {
	deadline := time.Now().Add(d)
	for i := 0; ; i++ {
		if cond() {
			return true
		}
		if i < 200 {
			runtime.Gosched()
		} else {
			if time.Now().After(deadline) {
				return cond()
			}
			time.Sleep(20 * time.Microsecond)
		}
	}
}

// ---------- goroutine-dump diagnosis ----------

type parked struct {
	Found   bool   `json:"found"`
	State   string `json:"state"`
	InQueue bool   `json:"in_queue_go"`
	Frames  string `json:"frames"`
}

func allStacks() string {
	buf := make([]byte, 1<<20)
	for {
		n := runtime.Stack(buf, true)
		if n < len(buf) {
			return string(buf[:n])
		}
		buf = make([]byte, 2*len(buf))
	}
}

var stateRe = regexp.MustCompile(`^goroutine \d+ \[([^\],]+)`)

// workerParked looks the worker goroutine up in a dump of all goroutines.
func workerParked(gid int64) parked {
	if gid == 0 {
		return parked{}
	}
	prefix := fmt.Sprintf("goroutine %d [", gid)
	for _, blk := range strings.Split(allStacks(), "\n\n") {
		if !strings.HasPrefix(blk, prefix) {
			continue
		}
		p := parked{Found: true, Frames: blk}
		if m := stateRe.FindStringSubmatch(blk); m != nil {
			p.State = m[1]
		}
		p.InQueue = strings.Contains(blk, "chain/queue.go:") && strings.Contains(blk, "ConcurrentQueue")
		if len(p.Frames) > 1500 {
			p.Frames = p.Frames[:1500]
		}
		return p
	}
	return parked{}
}

func isParkedState(s string) bool {
	return s == "chan send" || s == "select" || s == "chan receive"
}

// drained: the worker has accepted all `total` items, holds none between its two
// selects, its overflow list is empty — so it has output everything it ever
// will — and the consumer has taken every output. A stable state, no timing.
func (r *recorder) nInNow() int {
	r.mu.Lock()
	defer r.mu.Unlock()
	return r.nIn
}

func (r *recorder) drained(total, got int) bool {
	r.mu.Lock()
	defer r.mu.Unlock()
	return r.nIn == total && r.lastEv != "in" && r.lastOv == 0 && got == r.nOut
}

// diagnoseStall is called when a wait timed out. The stall becomes a verdict
// only if the goroutine dump shows the worker parked inside chain/queue.go in a
// state the hook's log makes impossible for a correct queue:
//   - parked in a send/select while holding an item it received (last event
//     "in") and the producer cannot complete its sends: blocked on the consumer;
//   - parked although its overflow list is non-empty and chanOut has room: the
//     items in the list are never delivered.
//
// Anything else is an error of the check (exit 2), not a statement about the code.
func (d *driver) diagnoseStall(res *runResult, rec *recorder, q *chain.ConcurrentQueue, sentNow, total int, ctx string) {
	pk := workerParked(rec.gid.Load())
	rec.mu.Lock()
	last, lastOv, nIn, nOut := rec.lastEv, rec.lastOv, rec.nIn, rec.nOut
	ev := rec.events
	if len(ev) > 60 {
		ev = ev[len(ev)-60:]
	}
	res.events = append([]event(nil), ev...)
	rec.mu.Unlock()
	res.nsent = sentNow
	abort.Store(true)
	room := cap(q.ChanOut()) == 0 || len(q.ChanOut()) < cap(q.ChanOut())
	switch {
	case pk.Found && pk.InQueue && (pk.State == "chan send" || pk.State == "select") && last == "in" && sentNow < total:
		d.mismatch("nonblocking", res, fmt.Sprintf("%s: the producer completed only %d of %d sends in %s: the worker is parked in a channel send/select of chain/queue.go holding the item it received (last event %q, %d items accepted) while the consumer is slow/absent", ctx, sentNow, total, runTimeout, last, nIn),
			map[string]interface{}{"completed_sends": sentNow, "worker": pk}, map[string]interface{}{"completed_sends": total})
	case pk.Found && pk.InQueue && isParkedState(pk.State) && last != "in" && lastOv > 0 && room:
		d.mismatch("stuck", res, fmt.Sprintf("%s: the worker is parked in chain/queue.go (%s) although %d items wait in its overflow list and chanOut has room (%d of %d accepted items were passed on): they are never delivered", ctx, pk.State, lastOv, nOut, nIn),
			map[string]interface{}{"overflow_len": lastOv, "chanOut_len": len(q.ChanOut()), "chanOut_cap": cap(q.ChanOut()), "worker": pk}, "the front of the overflow list is sent to chanOut")
	default:
		d.rep.AddError("run %d (%s) %s: stalled for %s but neither the goroutine dump nor the hook log shows a blocked queue (worker=%+v last=%q ov=%d in=%d out=%d sent=%d/%d)", res.run, res.scn.Name, ctx, runTimeout, pk, last, lastOv, nIn, nOut, sentNow, total)
	}
}

// ---------- one recorded run ----------

type runResult struct {
	scn      scenario
	run      int
	events   []event
	recv     []int
	nsent    int
	aborted  bool
	pushSeen bool
}

const (
	runTimeout  = 20 * time.Second
	exitTimeout = 10 * time.Second
)

var abort atomic.Bool // set at the first liveness violation: remaining runs are skipped

type driver struct {
	rep  *common.Report
	prop string
}

func (d *driver) mismatch(class string, res *runResult, what string, obs, exp interface{}) {
	beh, _ := json.Marshal(map[string]interface{}{
		"kind": "scenario", "scenario": res.scn, "lines": traceLines(res),
	})
	d.rep.AddMismatch(common.Mismatch{
		Prop: d.prop, Sig: "trace-queue:" + class + ":" + res.scn.Name, Trace: res.run, Step: len(res.events),
		What: what, Observed: obs, Expected: exp, Behav: beh,
	})
}

func (d *driver) runScenario(run int, scn scenario) (res *runResult) {
	res = &runResult{scn: scn, run: run}
	defer func() {
		if p := recover(); p != nil {
			d.mismatch("panic", res, fmt.Sprintf("panic in the code under test: %v", p), fmt.Sprint(p), "no panic")
			res.aborted = true
		}
	}()
	rec := &recorder{run: run, exit: make(chan struct{}), gateAt: scn.GateInAt}
	q := chain.NewConcurrentQueue(scn.B)
	recorders.Store(q, rec)
	defer recorders.Delete(q)
	q.Start()

	var sent, got atomic.Int64
	var recvMu sync.Mutex
	var recv []int
	take := func(v interface{}) {
		idx := -1
		if p, ok := v.(*payload); ok && p.run == run {
			idx = p.k
		}
		recvMu.Lock()
		recv = append(recv, idx)
		recvMu.Unlock()
		got.Add(1)
	}
	consStop := make(chan struct{}) // closed when the consumer should stop blocking receives
	var wg sync.WaitGroup

	// producer: sends 1..N in order; gives up only when the worker is gone
	wg.Add(1)
	go func() {
		defer wg.Done()
		rng := rand.New(rand.NewSource(scn.Seed ^ 0x5eed))
		for k := 1; k <= scn.N; k++ {
			if scn.ProdBurst <= 1 || k%scn.ProdBurst == 0 {
				delay(rng, scn.ProdDelay)
			}
			if scn.HoldAtStop && k == scn.StopAfterSent+1 {
				waitUntil(func() bool {
					select {
					case <-rec.exit:
						return true
					default:
					}
					return rec.stopped.Load()
				}, runTimeout+exitTimeout)
			}
			select {
			case q.ChanIn() <- &payload{run: run, k: k}:
				sent.Add(1)
			case <-rec.exit:
				return
			}
		}
	}()

	// consumer
	wg.Add(1)
	go func() {
		defer wg.Done()
		rng := rand.New(rand.NewSource(scn.Seed ^ 0xc0ffee))
		if !scn.ConsAbsent {
			started := make(chan struct{})
			go func() {
				waitUntil(func() bool {
					select {
					case <-consStop:
						return true
					default:
					}
					return int(sent.Load()) >= scn.ConsStartAfter
				}, runTimeout+exitTimeout)
				close(started)
			}()
			<-started
		loop:
			for {
				delay(rng, scn.ConsDelay)
				select {
				case v := <-q.ChanOut():
					take(v)
				case <-consStop:
					break loop
				}
			}
		} else {
			<-consStop
		}
		// the worker has exited: whatever is still buffered in chanOut is taken, nothing else can arrive
		for {
			select {
			case v := <-q.ChanOut():
				take(v)
			default:
				return
			}
		}
	}()

	quiescent := func() bool { return rec.drained(scn.N, int(got.Load())) }
	var ready bool
	if scn.StopAfterSent >= 0 {
		ready = waitUntil(func() bool { return int(sent.Load()) >= scn.StopAfterSent }, runTimeout)
	} else {
		// everything the worker accepted has been passed on and taken by the consumer
		ready = waitUntil(func() bool { return int(sent.Load()) == scn.N && quiescent() }, runTimeout)
	}
	if !ready {
		d.diagnoseStall(res, rec, q, int(sent.Load()), scn.N, "recorded run")
		// unblock and leave
		q.Stop()
		close(consStop)
		res.aborted = true
		return res
	}

	q.Stop()
	rec.stopped.Store(true)
	select {
	case <-rec.exit:
	case <-time.After(exitTimeout):
		pk := workerParked(rec.gid.Load())
		rec.mu.Lock()
		res.events = append([]event(nil), rec.events...)
		rec.mu.Unlock()
		res.nsent = int(sent.Load())
		abort.Store(true)
		if pk.Found && pk.InQueue && isParkedState(pk.State) {
			d.mismatch("termination", res, fmt.Sprintf("the worker did not terminate within %s after Stop: it is parked in chain/queue.go (%s)", exitTimeout, pk.State),
				map[string]interface{}{"worker": pk}, "exit event after Stop")
		} else {
			d.rep.AddError("run %d (%s): no exit event %s after Stop, worker goroutine %+v", run, scn.Name, exitTimeout, pk)
		}
		close(consStop)
		res.aborted = true
		return res
	}
	close(consStop)
	wg.Wait()

	rec.mu.Lock()
	res.events = append([]event(nil), rec.events...)
	rec.mu.Unlock()
	res.recv = recv
	res.nsent = int(sent.Load())
	for _, e := range res.events {
		if e.Ev == "push" || e.Ev == "enq" {
			res.pushSeen = true
		}
	}

	// direct end-to-end assertions
	checks := 0
	inOrder := true
	for i, v := range res.recv {
		if v != i+1 {
			inOrder = false
		}
	}
	checks++
	if !inOrder {
		d.mismatch("order", res, "the consumer did not receive the sent items in sending order without gaps or duplicates", res.recv, fmt.Sprintf("a prefix of 1..%d", res.nsent))
	}
	checks++
	if len(res.recv) > res.nsent {
		d.mismatch("dup", res, "more items received than sent", len(res.recv), res.nsent)
	}
	if scn.StopAfterSent < 0 {
		checks++
		if res.nsent != scn.N || len(res.recv) != scn.N {
			d.mismatch("loss", res, "not every sent item was received although the queue was only stopped after the worker had passed everything on",
				map[string]int{"sent": res.nsent, "received": len(res.recv)}, map[string]int{"sent": scn.N, "received": scn.N})
		}
	}
	checks++
	if n := len(res.events); n == 0 || res.events[n-1].Ev != "exit" {
		d.mismatch("termination", res, "the last worker event is not exit", res.events, "…, exit")
	}
	d.rep.Count(0, 0, checks)
	return res
}

type header struct {
	Ev    string   `json:"ev"`
	Run   int      `json:"run"`
	K     int      `json:"k"`
	St    bool     `json:"st"`
	B     int      `json:"B"`
	N     int      `json:"n"`
	Nsent int      `json:"nsent"`
	Recv  []int    `json:"recv"`
	Scn   scenario `json:"scn"`
}

// traceLines renders one run in the format QueueTrace.tla reads: a reset line
// (parameters, what the producer completed, what the consumer received), the
// worker's events, an end line.
func traceLines(res *runResult) []json.RawMessage {
	var out []json.RawMessage
	recv := res.recv
	if recv == nil {
		recv = []int{}
	}
	h, _ := json.Marshal(header{Ev: "reset", Run: res.run, B: res.scn.B, N: res.scn.N, Nsent: res.nsent, Recv: recv, Scn: res.scn})
	out = append(out, h)
	for _, e := range res.events {
		b, _ := json.Marshal(e)
		out = append(out, b)
	}
	e, _ := json.Marshal(event{Ev: "end", Run: res.run, K: len(res.events) + 1})
	out = append(out, e)
	return out
}

func signature(res *runResult) string {
	h := sha1.New()
	fmt.Fprintf(h, "B%d|", res.scn.B)
	for _, e := range res.events {
		fmt.Fprintf(h, "%s,%d,%d;", e.Ev, e.Item, e.Ov)
	}
	return fmt.Sprintf("%x", h.Sum(nil)[:10])
}

func compact(res *runResult) string {
	var sb strings.Builder
	fmt.Fprintf(&sb, "%s B=%d n=%d:", res.scn.Name, res.scn.B, res.scn.N)
	for i, e := range res.events {
		if i >= 40 {
			sb.WriteString(" …")
			break
		}
		if e.Item != 0 {
			fmt.Fprintf(&sb, " %s(%d|%d)", e.Ev, e.Item, e.Ov)
		} else {
			fmt.Fprintf(&sb, " %s", e.Ev)
		}
	}
	fmt.Fprintf(&sb, " => recv %v", res.recv)
	return sb.String()
}

// ---------- the big non-blocking run ----------

// nonBlocking: with NO consumer the producer must complete `count` sends.
func (d *driver) nonBlocking(B, count int) {
	run := -1 - B
	scn := scenario{Name: "nonblocking-10k", B: B, N: count, ConsAbsent: true, StopAfterSent: -1}
	res := &runResult{scn: scn, run: run}
	defer func() {
		if p := recover(); p != nil {
			d.mismatch("panic", res, fmt.Sprintf("panic in the code under test: %v", p), fmt.Sprint(p), "no panic")
		}
	}()
	rec := &recorder{run: run, exit: make(chan struct{})}
	q := chain.NewConcurrentQueue(B)
	recorders.Store(q, rec)
	defer recorders.Delete(q)
	q.Start()
	var sent atomic.Int64
	giveUp := make(chan struct{})
	done := make(chan struct{})
	go func() {
		defer close(done)
		for k := 1; k <= count; k++ {
			select {
			case q.ChanIn() <- &payload{run: run, k: k}:
				sent.Add(1)
			case <-giveUp:
				return
			}
		}
	}()
	tail := func() []event {
		rec.mu.Lock()
		defer rec.mu.Unlock()
		ev := rec.events
		if len(ev) > 12 {
			ev = ev[len(ev)-12:]
		}
		return append([]event(nil), ev...)
	}
	d.rep.Count(0, 0, 1)
	select {
	case <-done:
	case <-time.After(runTimeout):
		d.diagnoseStall(res, rec, q, int(sent.Load()), count, "consumer absent")
		close(giveUp)
		q.Stop()
		return
	}
	// now drain and compare; the drain ends when all items arrived or the worker has provably
	// nothing left to pass on (rec.drained), never on a timer alone
	bad, got := -1, 0
	deadline := time.After(runTimeout)
	tick := time.NewTicker(time.Millisecond)
	defer tick.Stop()
drain:
	for got < count {
		select {
		case v := <-q.ChanOut():
			got++
			if p, ok := v.(*payload); !ok || p.run != run || p.k != got {
				if bad < 0 {
					bad = got
				}
			}
		case <-tick.C:
			if rec.drained(count, got) && len(q.ChanOut()) == 0 {
				break drain
			}
		case <-deadline:
			d.diagnoseStall(res, rec, q, count, count, fmt.Sprintf("draining after %d unconsumed sends (got %d)", count, got))
			q.Stop()
			return
		}
	}
	d.rep.Count(0, 0, 1)
	if got != count {
		res.events, res.nsent = tail(), count
		d.mismatch("loss", res, fmt.Sprintf("draining after %d unconsumed sends: the worker has passed on everything it holds (overflow empty) but only %d items came out", count, got), got, count)
	}
	d.rep.Count(0, 0, 1)
	if bad >= 0 {
		res.events, res.nsent = tail(), count
		d.mismatch("order", res, fmt.Sprintf("draining after %d unconsumed sends: position %d does not hold item %d", count, bad, bad), bad, "items 1..n in order")
	}
	q.Stop()
	rec.stopped.Store(true)
	d.rep.Count(0, 0, 1)
	select {
	case <-rec.exit:
	case <-time.After(exitTimeout):
		pk := workerParked(rec.gid.Load())
		res.events, res.nsent = tail(), count
		abort.Store(true)
		if pk.Found && pk.InQueue && isParkedState(pk.State) {
			d.mismatch("termination", res, fmt.Sprintf("the worker did not terminate within %s after Stop: it is parked in chain/queue.go (%s)", exitTimeout, pk.State),
				map[string]interface{}{"worker": pk}, "exit event after Stop")
		} else {
			d.rep.AddError("nonblocking B=%d: no exit event after Stop, worker goroutine %+v", B, pk)
		}
		return
	}
	// the hook's view (complete now that the worker has exited): every item came in and went out once
	rec.mu.Lock()
	nIn, nOut := rec.nIn, rec.nOut
	rec.mu.Unlock()
	d.rep.Count(0, 0, 1)
	if nIn != count || nOut != count {
		res.events, res.nsent = tail(), count
		d.mismatch("loss", res, "worker events do not account for every item", map[string]int{"in": nIn, "out": nOut}, count)
	}
}

// multiProducer: several producers share one queue; per producer the order is
// kept and nothing is lost or duplicated (direct assertion only: the
// specification has one producer).
func (d *driver) multiProducer(seed int64, idx int) {
	rng := rand.New(rand.NewSource(seed*31 + int64(idx)))
	B, P, M := idx%4, 2+rng.Intn(3), 5+rng.Intn(20)
	run := -100 - idx
	scn := scenario{Name: "multi-producer", B: B, N: P * M, Seed: seed, StopAfterSent: -1}
	res := &runResult{scn: scn, run: run}
	defer func() {
		if p := recover(); p != nil {
			d.mismatch("panic", res, fmt.Sprintf("panic in the code under test: %v", p), fmt.Sprint(p), "no panic")
		}
	}()
	rec := &recorder{run: run, exit: make(chan struct{})}
	q := chain.NewConcurrentQueue(B)
	recorders.Store(q, rec)
	defer recorders.Delete(q)
	q.Start()
	var wg sync.WaitGroup
	for p := 0; p < P; p++ {
		wg.Add(1)
		go func(p int) {
			defer wg.Done()
			r := rand.New(rand.NewSource(seed + int64(p)))
			for k := 1; k <= M; k++ {
				delay(r, 20)
				select {
				case q.ChanIn() <- &payload{run: run, prod: p, k: k}:
				case <-rec.exit:
					return
				}
			}
		}(p)
	}
	lastK := make([]int, P)
	ok, n := true, 0
	timeout := time.After(runTimeout)
	tick := time.NewTicker(time.Millisecond)
	defer tick.Stop()
recvLoop:
	for n < P*M {
		delay(rng, 40)
		select {
		case v := <-q.ChanOut():
			pl, isP := v.(*payload)
			if !isP || pl.run != run || pl.k != lastK[pl.prod]+1 {
				ok = false
			} else {
				lastK[pl.prod] = pl.k
			}
			n++
		case <-tick.C:
			if rec.drained(P*M, n) && len(q.ChanOut()) == 0 {
				break recvLoop // the worker has nothing left to pass on
			}
		case <-timeout:
			d.diagnoseStall(res, rec, q, rec.nInNow(), P*M, "several producers")
			q.Stop()
			return
		}
	}
	d.rep.Count(0, 0, 1)
	if !ok || n != P*M {
		res.nsent = P * M
		d.mismatch("order", res, "several producers: per-producer order broken or items missing", map[string]interface{}{"received": n, "last_per_producer": lastK}, P*M)
	}
	q.Stop()
	select {
	case <-rec.exit:
	case <-time.After(exitTimeout):
		d.rep.AddError("multi-producer run %d: no exit after Stop", idx)
	}
	wg.Wait()
}

// ---------- main ----------

func main() {
	seed := flag.Int64("seed", 1, "seed of every scenario parameter and delay")
	runs := flag.Int("runs", 200, "number of recorded runs")
	out := flag.String("out", "", "ndjson file of the recorded runs (QueueTrace.tla format)")
	report := flag.String("out-report", "", "report file")
	prop := flag.String("prop", "C18", "property id")
	workers := flag.Int("workers", runtime.NumCPU(), "runs executed concurrently")
	big := flag.Int("nonblock", 10000, "sends of the consumer-absent run (0 = skip)")
	multi := flag.Int("multi", 8, "multi-producer runs (direct assertions only)")
	replay := flag.String("scenario", "", "JSON of one scenario to re-run -runs times instead of the generated mix")
	flag.Parse()
	if *out == "" || *report == "" {
		fmt.Fprintln(os.Stderr, "usage: trace-queue -out traces.ndjson -out-report report.json [-seed n] [-runs n]")
		os.Exit(2)
	}
	chain.VerifQueueHook = hook
	rep := common.NewReport()
	rep.Rule = "distinct recorded runs (distinct by buffer size and the worker's event sequence with items and overflow lengths) in which the overflow list became non-empty (a push or enq event)"
	d := &driver{rep: rep, prop: *prop}

	var fixed *scenario
	if *replay != "" {
		fixed = &scenario{}
		if err := json.Unmarshal([]byte(*replay), fixed); err != nil {
			fmt.Fprintln(os.Stderr, "bad -scenario:", err)
			os.Exit(2)
		}
	}

	// 1. the producer is not blocked by an absent consumer (all buffer sizes)
	if *big > 0 && fixed == nil {
		for B := 0; B <= 3 && !abort.Load(); B++ {
			d.nonBlocking(B, *big)
		}
	}

	// 2. recorded runs
	results := make([]*runResult, *runs)
	var wg sync.WaitGroup
	next := atomic.Int64{}
	for w := 0; w < *workers; w++ {
		wg.Add(1)
		go func() {
			defer wg.Done()
			for {
				i := int(next.Add(1)) - 1
				if i >= *runs || abort.Load() {
					return
				}
				scn := makeScenario(*seed, i)
				if fixed != nil {
					scn = *fixed
					scn.Seed = fixed.Seed + int64(i)
				}
				results[i] = d.runScenario(i+1, scn)
			}
		}()
	}
	wg.Wait()

	// 3. several producers
	if fixed == nil {
		for i := 0; i < *multi && !abort.Load(); i++ {
			d.multiProducer(*seed, i)
		}
	}

	f, err := os.Create(*out)
	if err != nil {
		fmt.Fprintln(os.Stderr, err)
		os.Exit(2)
	}
	nrec, nev := 0, 0
	byScn := map[string]int{}
	for _, res := range results {
		if res == nil || res.aborted {
			continue
		}
		for _, l := range traceLines(res) {
			f.Write(l)
			f.Write([]byte("\n"))
		}
		nrec++
		nev += len(res.events)
		byScn[res.scn.Name]++
		if res.pushSeen {
			rep.Nontriv(signature(res))
			rep.Inc("runs_with_overflow", 1)
			if len(res.events) <= 40 {
				rep.Sample(compact(res))
			}
		}
	}
	f.Close()
	rep.Count(nrec, nev, 0)
	for k, v := range byScn {
		rep.Inc("scenario_"+k, v)
	}
	if abort.Load() {
		rep.Inc("aborted_after_liveness_violation", 1)
	}
	if err := rep.Write(*report); err != nil {
		fmt.Fprintln(os.Stderr, err)
		os.Exit(2)
	}
}
