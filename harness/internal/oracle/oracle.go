// Package oracle is an independent statement of how btcwallet's addresses are
// supposed to be derived and encoded (C03): BIP32 from the seed with btcd's
// hdkeychain, hardened steps by btcsuite's legacy rule, and the standard
// address encodings. It deliberately shares no code with waddrmgr.
package oracle

import (
	"fmt"

	"github.com/btcsuite/btcd/btcec/v2"
	"github.com/btcsuite/btcd/btcutil"
	"github.com/btcsuite/btcd/btcutil/hdkeychain"
	"github.com/btcsuite/btcd/chaincfg"
	"github.com/btcsuite/btcd/txscript"
)

// Scope is a BIP43 purpose / coin type pair.
type Scope struct {
	Name    string
	Purpose uint32
	Coin    uint32
	ExtType string // address format of the external branch
	IntType string // address format of the internal branch
}

// Scopes are the four default key scopes and one custom scope.
var Scopes = map[string]Scope{
	"bip44":  {"bip44", 44, 0, "p2pkh", "p2pkh"},
	"bip49":  {"bip49", 49, 0, "np2wkh", "p2wkh"}, // BIP0049Plus: change is native segwit
	"bip84":  {"bip84", 84, 0, "p2wkh", "p2wkh"},
	"bip86":  {"bip86", 86, 0, "p2tr", "p2tr"},
	"custom": {"custom", 1017, 5, "p2wkh", "p2wkh"},
}

// Master returns the BIP32 master key of the seed.
func Master(seed []byte, params *chaincfg.Params) (*hdkeychain.ExtendedKey, error) {
	return hdkeychain.NewMaster(seed, params)
}

// AccountKey derives m/purpose'/coin'/account' with the legacy rule for
// hardened children (DeriveNonStandard), as the property states.
func AccountKey(master *hdkeychain.ExtendedKey, sc Scope, account uint32) (*hdkeychain.ExtendedKey, error) {
	k := master
	for _, idx := range []uint32{sc.Purpose, sc.Coin, account} {
		var err error
		k, err = k.DeriveNonStandard(hdkeychain.HardenedKeyStart + idx) // nolint:staticcheck
		if err != nil {
			return nil, err
		}
	}
	return k, nil
}

// Intermediate returns the keys m/purpose' and m/purpose'/coin' (secret
// dictionary of C04).
func Intermediate(master *hdkeychain.ExtendedKey, sc Scope) (purpose, coin *hdkeychain.ExtendedKey, err error) {
	purpose, err = master.DeriveNonStandard(hdkeychain.HardenedKeyStart + sc.Purpose) // nolint:staticcheck
	if err != nil {
		return nil, nil, err
	}
	coin, err = purpose.DeriveNonStandard(hdkeychain.HardenedKeyStart + sc.Coin) // nolint:staticcheck
	return purpose, coin, err
}

// Child derives branch/index below an account key (public or private) with
// standard BIP32 (non-hardened steps).
func Child(acct *hdkeychain.ExtendedKey, branch, index uint32) (*hdkeychain.ExtendedKey, error) {
	b, err := acct.Derive(branch)
	if err != nil {
		return nil, err
	}
	return b.Derive(index)
}

// Encode renders the public key in the given address format.
func Encode(typ string, pub *btcec.PublicKey, params *chaincfg.Params) (btcutil.Address, error) {
	h160 := btcutil.Hash160(pub.SerializeCompressed())
	switch typ {
	case "p2pkh":
		return btcutil.NewAddressPubKeyHash(h160, params)
	case "p2wkh":
		return btcutil.NewAddressWitnessPubKeyHash(h160, params)
	case "np2wkh":
		// P2SH of the version-0 witness program: OP_0 <20-byte hash>
		script := append([]byte{0x00, 0x14}, h160...)
		return btcutil.NewAddressScriptHash(script, params)
	case "p2tr":
		out := txscript.ComputeTaprootKeyNoScript(pub)
		return btcutil.NewAddressTaproot(out.SerializeCompressed()[1:], params)
	}
	return nil, fmt.Errorf("oracle: unknown address type %q", typ)
}

// TypeFor returns the address format for a branch of a scope, or of the
// account's overriding schema when ovExt/ovInt are non-empty.
func TypeFor(sc Scope, branch uint32, ovExt, ovInt string) string {
	if branch == 0 {
		if ovExt != "" {
			return ovExt
		}
		return sc.ExtType
	}
	if ovInt != "" {
		return ovInt
	}
	return sc.IntType
}
