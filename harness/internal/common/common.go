// Package common holds the pieces shared by all conformance drivers: trace
// input, a worker pool, mismatch reporting and scratch-directory handling.
package common

import (
	"bufio"
	"encoding/json"
	"fmt"
	"os"
	"path/filepath"
	"sort"
	"sync"
)

// Mismatch is one disagreement between the specification's expectation and
// what the real code did.
type Mismatch struct {
	Prop     string          `json:"prop"`
	Sig      string          `json:"sig"`
	Trace    int             `json:"trace"`
	Step     int             `json:"step"`
	What     string          `json:"what"`
	Observed interface{}     `json:"observed"`
	Expected interface{}     `json:"expected"`
	Behav    json.RawMessage `json:"behaviour,omitempty"`
}

// Report is what a driver writes to its -out file.
type Report struct {
	Traces      int            `json:"traces"`
	Steps       int            `json:"steps"`
	Checks      int            `json:"checks"`
	Nontrivial  int            `json:"distinct_nontrivial"`
	Rule        string         `json:"rule"`
	Mismatches  []Mismatch     `json:"mismatches"`
	NMismatch   int            `json:"n_mismatch"`
	Errors      []string       `json:"errors"`
	Samples     []interface{}  `json:"samples"`
	Extra       map[string]int `json:"extra"`
	mu          sync.Mutex
	nontrivKeys map[string]struct{}
}

func NewReport() *Report {
	return &Report{Extra: map[string]int{}, nontrivKeys: map[string]struct{}{}}
}

const maxKeptMismatches = 200

func (r *Report) AddMismatch(m Mismatch) {
	r.mu.Lock()
	defer r.mu.Unlock()
	r.NMismatch++
	// keep the first few per signature so that distinct defects all show up
	n := 0
	for _, o := range r.Mismatches {
		if o.Sig == m.Sig && o.Prop == m.Prop {
			n++
		}
	}
	if n < 3 && len(r.Mismatches) < maxKeptMismatches {
		r.Mismatches = append(r.Mismatches, m)
	}
}

func (r *Report) AddError(format string, a ...interface{}) {
	r.mu.Lock()
	defer r.mu.Unlock()
	if len(r.Errors) < 50 {
		r.Errors = append(r.Errors, fmt.Sprintf(format, a...))
	}
}

func (r *Report) Count(traces, steps, checks int) {
	r.mu.Lock()
	r.Traces += traces
	r.Steps += steps
	r.Checks += checks
	r.mu.Unlock()
}

func (r *Report) Inc(key string, n int) {
	r.mu.Lock()
	r.Extra[key] += n
	r.mu.Unlock()
}

// Nontriv records a distinct non-trivial case key.
func (r *Report) Nontriv(key string) {
	r.mu.Lock()
	r.nontrivKeys[key] = struct{}{}
	r.mu.Unlock()
}

func (r *Report) Sample(s interface{}) {
	r.mu.Lock()
	if len(r.Samples) < 3 {
		r.Samples = append(r.Samples, s)
	}
	r.mu.Unlock()
}

func (r *Report) Write(path string) error {
	r.mu.Lock()
	defer r.mu.Unlock()
	r.Nontrivial = len(r.nontrivKeys)
	sort.SliceStable(r.Mismatches, func(i, j int) bool {
		if r.Mismatches[i].Trace != r.Mismatches[j].Trace {
			return r.Mismatches[i].Trace < r.Mismatches[j].Trace
		}
		return r.Mismatches[i].Step < r.Mismatches[j].Step
	})
	b, err := json.MarshalIndent(r, "", " ")
	if err != nil {
		return err
	}
	return os.WriteFile(path, b, 0644)
}

// ForEachLine feeds every line of the file to fn on nworkers goroutines.
// Lines are numbered from 0.
func ForEachLine(path string, nworkers int, fn func(idx int, line []byte)) error {
	f, err := os.Open(path)
	if err != nil {
		return err
	}
	defer f.Close()
	type item struct {
		idx  int
		line []byte
	}
	ch := make(chan item, 4*nworkers)
	var wg sync.WaitGroup
	for w := 0; w < nworkers; w++ {
		wg.Add(1)
		go func() {
			defer wg.Done()
			for it := range ch {
				fn(it.idx, it.line)
			}
		}()
	}
	sc := bufio.NewScanner(f)
	sc.Buffer(make([]byte, 1<<20), 1<<28)
	idx := 0
	for sc.Scan() {
		b := sc.Bytes()
		if len(b) == 0 {
			continue
		}
		cp := make([]byte, len(b))
		copy(cp, b)
		ch <- item{idx, cp}
		idx++
	}
	close(ch)
	wg.Wait()
	return sc.Err()
}

// ScratchRoot returns a fresh scratch directory (on tmpfs when available so
// that bbolt's fsyncs cost nothing). The caller removes it.
func ScratchRoot(name string) (string, error) {
	base := os.Getenv("VERIF_SCRATCH")
	if base == "" {
		if st, err := os.Stat("/dev/shm"); err == nil && st.IsDir() {
			base = "/dev/shm"
		} else {
			base = os.TempDir()
		}
	}
	return os.MkdirTemp(base, "verif-"+name+"-")
}

func Join(elem ...string) string { return filepath.Join(elem...) }

// JSON renders a value compactly for messages.
func JSON(v interface{}) string {
	b, _ := json.Marshal(v)
	return string(b)
}
