// Package mockchain is a scripted chain backend (chain.Interface) for the
// wallet-level conformance drivers: a best chain of blocks carrying the
// transactions the harness puts into them, watch lists as the real backends
// keep them (addresses registered with NotifyReceived / Rescan, outpoints of
// watched outputs), bitcoind-style notification order, programmable answers
// for SendRawTransaction and NotifyReceived, and a call log.
//
// Notifications go through an unbounded internal list into an unbuffered
// channel, so the wallet's single notification goroutine has fully processed
// notification k as soon as k+1 has been taken: Flush() relies on that.
package mockchain

import (
	"bytes"
	"crypto/sha256"
	"encoding/binary"
	"errors"
	"fmt"
	"sync"
	"time"

	"github.com/btcsuite/btcd/btcjson"
	"github.com/btcsuite/btcd/btcutil"
	"github.com/btcsuite/btcd/chaincfg"
	"github.com/btcsuite/btcd/chaincfg/chainhash"
	"github.com/btcsuite/btcd/txscript"
	"github.com/btcsuite/btcd/wire"
	"github.com/btcsuite/btcwallet/chain"
	"github.com/btcsuite/btcwallet/waddrmgr"
	"github.com/btcsuite/btcwallet/wtxmgr"
)

// Block is one block of the scripted chain.
type Block struct {
	Hash   chainhash.Hash
	Prev   chainhash.Hash
	Height int32
	Time   time.Time
	Txs    []*wire.MsgTx
}

func (b *Block) Meta() wtxmgr.BlockMeta {
	return wtxmgr.BlockMeta{Block: wtxmgr.Block{Hash: b.Hash, Height: b.Height}, Time: b.Time}
}

func (b *Block) Header() *wire.BlockHeader {
	return &wire.BlockHeader{Version: 1, PrevBlock: b.Prev, Timestamp: b.Time}
}

// SendCall records one SendRawTransaction call.
type SendCall struct {
	Hash   chainhash.Hash
	Answer string
}

type flushMarker struct{ done chan struct{} }

// Chain implements chain.Interface.
type Chain struct {
	Params *chaincfg.Params

	mu       sync.Mutex
	best     []*Block // index = height
	byHash   map[chainhash.Hash]*Block
	forkSeq  int
	spacing  time.Duration
	t0       time.Time
	mempool  map[chainhash.Hash]*wire.MsgTx
	tracked  map[chainhash.Hash]bool
	online   bool // wallet attached: notifications are produced
	blocksOn bool // NotifyBlocks was called

	watchScripts map[string]bool
	watchOps     map[wire.OutPoint]bool

	// programmable answers
	SendAnswer       func(tx *wire.MsgTx) error // nil => accept
	NotifyRecvFailAt int                        // fail the n-th NotifyReceived call from now (1-based), 0 = never
	notifyRecvCalls  int
	ErrNotifyRecv    error

	DuringRescan func() // one-shot: runs inside the next Rescan, before RescanFinished is queued

	Sends       []SendCall
	RescanCalls int

	qmu    sync.Mutex
	pushed int
	qcond  *sync.Cond
	queue  []interface{}
	ntfns  chan interface{}
	quit   chan struct{}
	wg     sync.WaitGroup
	closed bool
}

// New creates a chain of n+1 blocks (heights 0..n), height 0 being the
// genesis block of params, with the given block spacing.
func New(params *chaincfg.Params, n int, t0 time.Time, spacing time.Duration) *Chain {
	c := &Chain{Params: params, byHash: map[chainhash.Hash]*Block{}, spacing: spacing, t0: t0,
		mempool: map[chainhash.Hash]*wire.MsgTx{}, tracked: map[chainhash.Hash]bool{}, watchScripts: map[string]bool{}, watchOps: map[wire.OutPoint]bool{},
		ErrNotifyRecv: errors.New("mockchain: notification subscription failed")}
	c.qcond = sync.NewCond(&c.qmu)
	g := &Block{Hash: *params.GenesisHash, Height: 0, Time: t0}
	c.best = []*Block{g}
	c.byHash[g.Hash] = g
	for i := 1; i <= n; i++ {
		c.appendLocked(nil)
	}
	return c
}

func (c *Chain) newHash(height int32) chainhash.Hash {
	c.forkSeq++
	var b [16]byte
	binary.BigEndian.PutUint64(b[:8], uint64(height))
	binary.BigEndian.PutUint64(b[8:], uint64(c.forkSeq))
	return sha256.Sum256(b[:])
}

func (c *Chain) appendLocked(txs []*wire.MsgTx) *Block {
	tip := c.best[len(c.best)-1]
	h := tip.Height + 1
	// block times are strictly increasing along a chain; a block created by a
	// reorg is stamped a little later than the one it replaces
	b := &Block{Hash: c.newHash(h), Prev: tip.Hash, Height: h,
		Time: c.t0.Add(time.Duration(h) * c.spacing).Add(time.Duration(c.forkSeq%50) * time.Second), Txs: txs}
	c.best = append(c.best, b)
	c.byHash[b.Hash] = b
	return b
}

// ---------- scripting API (harness side) ----------

// Tip returns the current best block.
func (c *Chain) Tip() *Block {
	c.mu.Lock()
	defer c.mu.Unlock()
	return c.best[len(c.best)-1]
}

// At returns the best-chain block at the height, or nil.
func (c *Chain) At(h int32) *Block {
	c.mu.Lock()
	defer c.mu.Unlock()
	if h < 0 || int(h) >= len(c.best) {
		return nil
	}
	return c.best[h]
}

// Extend mines one block containing txs (removed from the mempool) and, when
// a wallet is attached, notifies it the way bitcoind does: the filtered block
// with the relevant transactions first, then the block itself.
func (c *Chain) Extend(txs []*wire.MsgTx) *Block {
	c.mu.Lock()
	b := c.appendLocked(txs)
	for _, tx := range txs {
		delete(c.mempool, tx.TxHash())
	}
	c.notifyConnectLocked(b)
	c.mu.Unlock()
	return b
}

func (c *Chain) notifyConnectLocked(b *Block) {
	if !c.online || !c.blocksOn {
		return
	}
	meta := b.Meta()
	var rel []*wtxmgr.TxRecord
	for _, tx := range b.Txs {
		if c.relevantLocked(tx, true) {
			rec, err := wtxmgr.NewTxRecordFromMsgTx(tx, b.Time)
			if err == nil {
				rel = append(rel, rec)
			}
		}
	}
	c.push(chain.FilteredBlockConnected{Block: &meta, RelevantTxs: rel})
	c.push(chain.BlockConnected(meta))
}

// Disconnect removes the top `depth` blocks, notifying top-down. The
// transactions of the removed blocks (except coinbases) return to the mempool.
func (c *Chain) Disconnect(depth int) []*Block {
	c.mu.Lock()
	defer c.mu.Unlock()
	var removed []*Block
	for i := 0; i < depth && len(c.best) > 1; i++ {
		b := c.best[len(c.best)-1]
		c.best = c.best[:len(c.best)-1]
		removed = append(removed, b)
		for _, tx := range b.Txs {
			if !isCoinbase(tx) {
				c.mempool[tx.TxHash()] = tx
			}
		}
		if c.online && c.blocksOn {
			c.push(chain.BlockDisconnected(b.Meta()))
		}
	}
	return removed
}

// Track marks a transaction whose outputs can only be spent once the backend has it (in its
// mempool or in a block of the best chain): a child offered before its tracked parent is refused
// with "missing inputs", as a real backend does.
func (c *Chain) Track(h chainhash.Hash) {
	c.mu.Lock()
	c.tracked[h] = true
	c.mu.Unlock()
}

func (c *Chain) hasTxLocked(h chainhash.Hash) bool {
	if _, ok := c.mempool[h]; ok {
		return true
	}
	for _, b := range c.best {
		for _, tx := range b.Txs {
			if tx.TxHash() == h {
				return true
			}
		}
	}
	return false
}

// Reconnect appends blocks that were disconnected before (the same blocks, same hashes),
// lowest first, with the usual connect notifications.
func (c *Chain) Reconnect(blocks []*Block) {
	c.mu.Lock()
	defer c.mu.Unlock()
	for _, b := range blocks {
		c.best = append(c.best, b)
		for _, tx := range b.Txs {
			delete(c.mempool, tx.TxHash())
		}
		c.notifyConnectLocked(b)
	}
}

// SendStaleDisconnect delivers a disconnect notification for a block that is
// not (or no longer) the wallet's block at that height.
func (c *Chain) SendStaleDisconnect(b *Block) {
	c.mu.Lock()
	defer c.mu.Unlock()
	if c.online && c.blocksOn {
		c.push(chain.BlockDisconnected(b.Meta()))
	}
}

// AcceptTx puts a transaction broadcast by somebody else into the mempool and
// notifies the wallet if it is relevant.
func (c *Chain) AcceptTx(tx *wire.MsgTx) {
	c.mu.Lock()
	defer c.mu.Unlock()
	c.mempool[tx.TxHash()] = tx
	if c.online && c.relevantLocked(tx, true) {
		rec, err := wtxmgr.NewTxRecordFromMsgTx(tx, time.Now())
		if err == nil {
			c.push(chain.RelevantTx{TxRecord: rec})
		}
	}
}

// Mempool returns the transactions currently in the mempool.
func (c *Chain) Mempool() []*wire.MsgTx {
	c.mu.Lock()
	defer c.mu.Unlock()
	var r []*wire.MsgTx
	for _, tx := range c.mempool {
		r = append(r, tx)
	}
	return r
}

// DropFromMempool forgets a transaction (conflict, expiry).
func (c *Chain) DropFromMempool(h chainhash.Hash) {
	c.mu.Lock()
	delete(c.mempool, h)
	c.mu.Unlock()
}

// Attach marks a wallet as connected and sends ClientConnected.
func (c *Chain) Attach() {
	c.mu.Lock()
	c.online = true
	c.mu.Unlock()
	c.push(chain.ClientConnected{})
}

// Detach forgets the wallet's subscriptions (the wallet was stopped).
func (c *Chain) Detach() {
	c.mu.Lock()
	c.online = false
	c.blocksOn = false
	c.watchScripts = map[string]bool{}
	c.watchOps = map[wire.OutPoint]bool{}
	c.mu.Unlock()
}

// Watched reports whether the address script is being watched.
func (c *Chain) Watched(pkScript []byte) bool {
	c.mu.Lock()
	defer c.mu.Unlock()
	return c.watchScripts[string(pkScript)]
}

// SendLog returns a copy of the SendRawTransaction log and clears it.
func (c *Chain) SendLog(clear bool) []SendCall {
	c.mu.Lock()
	defer c.mu.Unlock()
	r := append([]SendCall(nil), c.Sends...)
	if clear {
		c.Sends = nil
	}
	return r
}

func isCoinbase(tx *wire.MsgTx) bool {
	return len(tx.TxIn) == 1 && tx.TxIn[0].PreviousOutPoint.Index == wire.MaxPrevOutIndex &&
		tx.TxIn[0].PreviousOutPoint.Hash == chainhash.Hash{}
}

// relevantLocked: pays a watched script or spends a watched outpoint; when it
// is, its outputs paying watched scripts become watched outpoints (as the real
// backends do during rescans and filtered-block notifications).
func (c *Chain) relevantLocked(tx *wire.MsgTx, update bool) bool {
	rel := false
	for _, in := range tx.TxIn {
		if c.watchOps[in.PreviousOutPoint] {
			rel = true
		}
	}
	h := tx.TxHash()
	for i, out := range tx.TxOut {
		if c.watchScripts[string(out.PkScript)] {
			rel = true
			if update {
				c.watchOps[wire.OutPoint{Hash: h, Index: uint32(i)}] = true
			}
		}
	}
	return rel
}

// ---------- notification pump ----------

func (c *Chain) push(n interface{}) {
	c.qmu.Lock()
	c.queue = append(c.queue, n)
	if _, ok := n.(flushMarker); !ok {
		c.pushed++
	}
	c.qmu.Unlock()
	c.qcond.Signal()
}

// Settle flushes until a whole flush went by without the wallet's processing
// having caused further notifications (a rescan answers with notifications).
func (c *Chain) Settle(timeout time.Duration) bool {
	deadline := time.Now().Add(timeout)
	for {
		c.qmu.Lock()
		before := c.pushed
		c.qmu.Unlock()
		if !c.Flush(time.Until(deadline)) {
			return false
		}
		c.qmu.Lock()
		after, pending := c.pushed, len(c.queue)
		c.qmu.Unlock()
		if after == before && pending == 0 {
			return true
		}
		if time.Now().After(deadline) {
			return false
		}
	}
}

func (c *Chain) pump() {
	defer c.wg.Done()
	for {
		c.qmu.Lock()
		for len(c.queue) == 0 && !c.closed {
			c.qcond.Wait()
		}
		if c.closed {
			c.qmu.Unlock()
			return
		}
		n := c.queue[0]
		c.queue = c.queue[1:]
		c.qmu.Unlock()
		if fm, ok := n.(flushMarker); ok {
			// everything before the marker has been taken; one more rendezvous
			// proves the last real notification has been processed completely
			select {
			case c.ntfns <- struct{}{}:
			case <-c.quit:
				close(fm.done)
				return
			}
			close(fm.done)
			continue
		}
		select {
		case c.ntfns <- n:
		case <-c.quit:
			return
		}
	}
}

// Flush blocks until every notification queued so far has been processed by
// the wallet's notification goroutine. It returns false on time-out.
func (c *Chain) Flush(timeout time.Duration) bool {
	fm := flushMarker{done: make(chan struct{})}
	c.push(fm)
	select {
	case <-fm.done:
		return true
	case <-time.After(timeout):
		return false
	}
}

// ---------- chain.Interface ----------

func (c *Chain) Start() error {
	c.qmu.Lock()
	defer c.qmu.Unlock()
	if c.ntfns != nil && !c.closed {
		return nil
	}
	c.closed = false
	c.ntfns = make(chan interface{})
	c.quit = make(chan struct{})
	c.wg.Add(1)
	go c.pump()
	return nil
}

func (c *Chain) Stop() {
	c.qmu.Lock()
	if c.closed || c.ntfns == nil {
		c.qmu.Unlock()
		return
	}
	c.closed = true
	close(c.quit)
	c.queue = nil
	c.qmu.Unlock()
	c.qcond.Broadcast()
}

func (c *Chain) WaitForShutdown() { c.wg.Wait() }

func (c *Chain) GetBestBlock() (*chainhash.Hash, int32, error) {
	t := c.Tip()
	return &t.Hash, t.Height, nil
}

func (c *Chain) GetBlock(h *chainhash.Hash) (*wire.MsgBlock, error) {
	c.mu.Lock()
	defer c.mu.Unlock()
	b, ok := c.byHash[*h]
	if !ok {
		return nil, fmt.Errorf("mockchain: block %v not found", h)
	}
	mb := wire.NewMsgBlock(b.Header())
	for _, tx := range b.Txs {
		mb.AddTransaction(tx)
	}
	return mb, nil
}

func (c *Chain) GetBlockHash(height int64) (*chainhash.Hash, error) {
	c.mu.Lock()
	defer c.mu.Unlock()
	if height < 0 || int(height) >= len(c.best) {
		return nil, fmt.Errorf("mockchain: block height %d out of range", height)
	}
	h := c.best[height].Hash
	return &h, nil
}

func (c *Chain) GetBlockHeader(h *chainhash.Hash) (*wire.BlockHeader, error) {
	c.mu.Lock()
	defer c.mu.Unlock()
	b, ok := c.byHash[*h]
	if !ok {
		return nil, fmt.Errorf("mockchain: block %v not found", h)
	}
	return b.Header(), nil
}

func (c *Chain) IsCurrent() bool { return true }

func (c *Chain) BlockStamp() (*waddrmgr.BlockStamp, error) {
	t := c.Tip()
	return &waddrmgr.BlockStamp{Hash: t.Hash, Height: t.Height, Timestamp: t.Time}, nil
}

// FilterBlocks answers with the first block of the batch that contains a
// matching transaction, using the real chain.BlockFilterer.
func (c *Chain) FilterBlocks(req *chain.FilterBlocksRequest) (*chain.FilterBlocksResponse, error) {
	bf := chain.NewBlockFilterer(c.Params, req)
	for i, meta := range req.Blocks {
		blk, err := c.GetBlock(&meta.Hash)
		if err != nil {
			return nil, err
		}
		if !bf.FilterBlock(blk) {
			continue
		}
		return &chain.FilterBlocksResponse{
			BatchIndex:         uint32(i),
			BlockMeta:          meta,
			FoundExternalAddrs: bf.FoundExternal,
			FoundInternalAddrs: bf.FoundInternal,
			FoundOutPoints:     bf.FoundOutPoints,
			RelevantTxns:       bf.RelevantTxns,
		}, nil
	}
	return nil, nil
}

// ErrDefaultAnswer, returned by SendAnswer, makes the backend answer as it would without a script.
var ErrDefaultAnswer = errors.New("mockchain: default answer")

func (c *Chain) SendRawTransaction(tx *wire.MsgTx, allowHighFees bool) (*chainhash.Hash, error) {
	h := tx.TxHash()
	c.mu.Lock()
	defer c.mu.Unlock()
	var err error
	if c.SendAnswer != nil {
		err = c.SendAnswer(tx)
	} else {
		err = ErrDefaultAnswer
	}
	if err == ErrDefaultAnswer {
		err = nil
		if _, known := c.mempool[h]; known {
			// what a real backend answers to a re-broadcast
			err = chain.ErrTxAlreadyInMempool
		} else {
			for _, in := range tx.TxIn {
				if c.tracked[in.PreviousOutPoint.Hash] && !c.hasTxLocked(in.PreviousOutPoint.Hash) {
					err = errors.New("mockchain: missing inputs (the parent transaction is unknown to the backend)")
				}
			}
		}
	}
	ans := "accepted"
	if err != nil {
		ans = err.Error()
	}
	c.Sends = append(c.Sends, SendCall{Hash: h, Answer: ans})
	if errors.Is(err, chain.ErrTxAlreadyInMempool) {
		c.mempool[h] = tx
	}
	if err != nil {
		return nil, err
	}
	c.mempool[h] = tx
	if c.online && c.relevantLocked(tx, true) {
		if rec, e := wtxmgr.NewTxRecordFromMsgTx(tx, time.Now()); e == nil {
			c.push(chain.RelevantTx{TxRecord: rec})
		}
	}
	return &h, nil
}

// Rescan registers the addresses and outpoints, replays the relevant
// transactions of every best-chain block after startHash and finishes with
// RescanFinished for the tip. It never blocks on the notification channel.
func (c *Chain) Rescan(startHash *chainhash.Hash, addrs []btcutil.Address,
	outpoints map[wire.OutPoint]btcutil.Address) error {

	c.mu.Lock()
	defer c.mu.Unlock()
	c.RescanCalls++
	start, ok := c.byHash[*startHash]
	if !ok || int(start.Height) >= len(c.best) || c.best[start.Height].Hash != *startHash {
		return fmt.Errorf("mockchain: rescan start block %v is not on the best chain", startHash)
	}
	for _, a := range addrs {
		if s, err := txscript.PayToAddrScript(a); err == nil {
			c.watchScripts[string(s)] = true
		}
	}
	for op := range outpoints {
		c.watchOps[op] = true
	}
	for h := int(start.Height) + 1; h < len(c.best); h++ {
		b := c.best[h]
		meta := b.Meta()
		for _, tx := range b.Txs {
			if c.relevantLocked(tx, true) {
				if rec, err := wtxmgr.NewTxRecordFromMsgTx(tx, b.Time); err == nil {
					c.push(chain.RelevantTx{TxRecord: rec, Block: &meta})
				}
			}
		}
	}
	tip := c.best[len(c.best)-1]
	if f := c.DuringRescan; f != nil {
		// the backend's chain moves while the rescan is still running: whatever the callback
		// does (Disconnect / Extend) is notified before RescanFinished for the block the rescan reached
		c.DuringRescan = nil
		c.mu.Unlock()
		f()
		c.mu.Lock()
	}
	c.push(&chain.RescanFinished{Hash: &tip.Hash, Height: tip.Height, Time: tip.Time})
	return nil
}

func (c *Chain) NotifyReceived(addrs []btcutil.Address) error {
	c.mu.Lock()
	defer c.mu.Unlock()
	c.notifyRecvCalls++
	if c.NotifyRecvFailAt != 0 && c.notifyRecvCalls == c.NotifyRecvFailAt {
		return c.ErrNotifyRecv
	}
	for _, a := range addrs {
		if s, err := txscript.PayToAddrScript(a); err == nil {
			c.watchScripts[string(s)] = true
		}
	}
	return nil
}

// ArmNotifyRecvFailure makes the n-th NotifyReceived call from now fail.
func (c *Chain) ArmNotifyRecvFailure(n int) {
	c.mu.Lock()
	c.notifyRecvCalls = 0
	c.NotifyRecvFailAt = n
	c.mu.Unlock()
}

func (c *Chain) NotifyBlocks() error {
	c.mu.Lock()
	c.blocksOn = true
	c.mu.Unlock()
	return nil
}

func (c *Chain) Notifications() <-chan interface{} { return c.ntfns }

func (c *Chain) BackEnd() string { return "mock" }

func (c *Chain) TestMempoolAccept(txs []*wire.MsgTx, maxFeeRate float64) ([]*btcjson.TestMempoolAcceptResult, error) {
	return nil, errors.New("mockchain: testmempoolaccept not supported")
}

func (c *Chain) MapRPCErr(err error) error { return err }

var _ chain.Interface = (*Chain)(nil)
var _ = bytes.Equal
