// Package faultdb decorates walletdb buckets so that the k-th mutating call
// (Put, Delete, bucket creation/deletion, cursor Delete, sequence update)
// inside a transaction fails with ErrInjected. Reads never fail. It is the
// fault model of C10: "any single database write inside an operation fails".
package faultdb

import (
	"errors"
	"sync"

	"github.com/btcsuite/btcwallet/walletdb"
)

var ErrInjected = errors.New("faultdb: injected write failure")

// Injector counts mutating calls and fails the FailAt-th one (1-based).
// FailAt = 0 never fails (used to count the writes of an operation).
type Injector struct {
	mu     sync.Mutex
	FailAt int
	Count  int
	Fired  bool
	Kind   string // kind of the call that was failed
}

func (in *Injector) hit(kind string) error {
	in.mu.Lock()
	defer in.mu.Unlock()
	in.Count++
	if in.FailAt != 0 && in.Count == in.FailAt {
		in.Fired = true
		in.Kind = kind
		return ErrInjected
	}
	return nil
}

// WrapBucket returns b decorated; nested buckets and cursors are decorated too.
func (in *Injector) WrapBucket(tx walletdb.ReadWriteTx, b walletdb.ReadWriteBucket) walletdb.ReadWriteBucket {
	if b == nil {
		return nil
	}
	return &bucket{in: in, b: b}
}

type bucket struct {
	in *Injector
	b  walletdb.ReadWriteBucket
}

func (f *bucket) NestedReadBucket(key []byte) walletdb.ReadBucket {
	nb := f.b.NestedReadWriteBucket(key)
	if nb == nil {
		return nil
	}
	return &bucket{in: f.in, b: nb}
}
func (f *bucket) ForEach(fn func(k, v []byte) error) error { return f.b.ForEach(fn) }
func (f *bucket) Get(key []byte) []byte                    { return f.b.Get(key) }
func (f *bucket) ReadCursor() walletdb.ReadCursor          { return f.b.ReadCursor() }
func (f *bucket) Sequence() uint64                         { return f.b.Sequence() }

func (f *bucket) NestedReadWriteBucket(key []byte) walletdb.ReadWriteBucket {
	nb := f.b.NestedReadWriteBucket(key)
	if nb == nil {
		return nil
	}
	return &bucket{in: f.in, b: nb}
}
func (f *bucket) CreateBucket(key []byte) (walletdb.ReadWriteBucket, error) {
	if err := f.in.hit("CreateBucket"); err != nil {
		return nil, err
	}
	nb, err := f.b.CreateBucket(key)
	if err != nil {
		return nil, err
	}
	return &bucket{in: f.in, b: nb}, nil
}
func (f *bucket) CreateBucketIfNotExists(key []byte) (walletdb.ReadWriteBucket, error) {
	// only an actual creation is a write
	if f.b.NestedReadWriteBucket(key) == nil {
		if err := f.in.hit("CreateBucketIfNotExists"); err != nil {
			return nil, err
		}
	}
	nb, err := f.b.CreateBucketIfNotExists(key)
	if err != nil {
		return nil, err
	}
	return &bucket{in: f.in, b: nb}, nil
}
func (f *bucket) DeleteNestedBucket(key []byte) error {
	if err := f.in.hit("DeleteNestedBucket"); err != nil {
		return err
	}
	return f.b.DeleteNestedBucket(key)
}
func (f *bucket) Put(key, value []byte) error {
	if err := f.in.hit("Put"); err != nil {
		return err
	}
	return f.b.Put(key, value)
}
func (f *bucket) Delete(key []byte) error {
	if err := f.in.hit("Delete"); err != nil {
		return err
	}
	return f.b.Delete(key)
}
func (f *bucket) ReadWriteCursor() walletdb.ReadWriteCursor {
	return &cursor{in: f.in, c: f.b.ReadWriteCursor()}
}
func (f *bucket) Tx() walletdb.ReadWriteTx { return f.b.Tx() }
func (f *bucket) NextSequence() (uint64, error) {
	if err := f.in.hit("NextSequence"); err != nil {
		return 0, err
	}
	return f.b.NextSequence()
}
func (f *bucket) SetSequence(v uint64) error {
	if err := f.in.hit("SetSequence"); err != nil {
		return err
	}
	return f.b.SetSequence(v)
}

type cursor struct {
	in *Injector
	c  walletdb.ReadWriteCursor
}

func (c *cursor) First() (k, v []byte)        { return c.c.First() }
func (c *cursor) Last() (k, v []byte)         { return c.c.Last() }
func (c *cursor) Next() (k, v []byte)         { return c.c.Next() }
func (c *cursor) Prev() (k, v []byte)         { return c.c.Prev() }
func (c *cursor) Seek(s []byte) (k, v []byte) { return c.c.Seek(s) }
func (c *cursor) Delete() error {
	if err := c.in.hit("Cursor.Delete"); err != nil {
		return err
	}
	return c.c.Delete()
}

// ---- a whole database decorated (wallet-level fault injection) ----

// DB decorates a walletdb.DB: while an Injector is installed with Arm, every
// read-write transaction hands out decorated buckets, whichever goroutine of
// the wallet opens it.  The injector counts across transactions, so FailAt = k
// fails the k-th write of a multi-transaction wallet operation.
type DB struct {
	walletdb.DB
	mu  sync.Mutex
	inj *Injector
}

func WrapDB(db walletdb.DB) *DB { return &DB{DB: db} }

// Arm installs (or, with nil, removes) the injector.
func (d *DB) Arm(in *Injector) {
	d.mu.Lock()
	d.inj = in
	d.mu.Unlock()
}

func (d *DB) current() *Injector {
	d.mu.Lock()
	defer d.mu.Unlock()
	return d.inj
}

func (d *DB) BeginReadWriteTx() (walletdb.ReadWriteTx, error) {
	tx, err := d.DB.BeginReadWriteTx()
	if err != nil {
		return nil, err
	}
	if in := d.current(); in != nil {
		return &rwtx{ReadWriteTx: tx, in: in}, nil
	}
	return tx, nil
}

func (d *DB) Update(f func(tx walletdb.ReadWriteTx) error, reset func()) error {
	return d.DB.Update(func(tx walletdb.ReadWriteTx) error {
		if in := d.current(); in != nil {
			return f(&rwtx{ReadWriteTx: tx, in: in})
		}
		return f(tx)
	}, reset)
}

type rwtx struct {
	walletdb.ReadWriteTx
	in *Injector
}

func (t *rwtx) ReadWriteBucket(key []byte) walletdb.ReadWriteBucket {
	return t.in.WrapBucket(t.ReadWriteTx, t.ReadWriteTx.ReadWriteBucket(key))
}

func (t *rwtx) CreateTopLevelBucket(key []byte) (walletdb.ReadWriteBucket, error) {
	if err := t.in.hit("CreateTopLevelBucket"); err != nil {
		return nil, err
	}
	b, err := t.ReadWriteTx.CreateTopLevelBucket(key)
	if err != nil {
		return nil, err
	}
	return t.in.WrapBucket(t.ReadWriteTx, b), nil
}

func (t *rwtx) DeleteTopLevelBucket(key []byte) error {
	if err := t.in.hit("DeleteTopLevelBucket"); err != nil {
		return err
	}
	return t.ReadWriteTx.DeleteTopLevelBucket(key)
}
