module verif/harness

go 1.22

require (
	github.com/btcsuite/btcd v0.24.3-0.20250318170759-4f4ea81776d6
	github.com/btcsuite/btcd/btcutil v1.1.5
	github.com/btcsuite/btcd/chaincfg/chainhash v1.1.0
	github.com/btcsuite/btcwallet v0.16.10
	github.com/btcsuite/btcwallet/walletdb v1.5.1
	github.com/btcsuite/btcwallet/wtxmgr v1.5.6
	github.com/lightningnetwork/lnd/clock v1.0.1
)

require (
	github.com/btcsuite/btcd/btcec/v2 v2.3.4 // indirect
	github.com/btcsuite/btclog v0.0.0-20170628155309-84c8d2346e9f // indirect
	github.com/decred/dcrd/crypto/blake256 v1.0.1 // indirect
	github.com/decred/dcrd/dcrec/secp256k1/v4 v4.3.0 // indirect
	go.etcd.io/bbolt v1.3.11 // indirect
	golang.org/x/crypto v0.22.0 // indirect
	golang.org/x/sys v0.19.0 // indirect
)

replace (
	github.com/btcsuite/btcwallet => /repo
	github.com/btcsuite/btcwallet/wallet/txauthor => /repo/wallet/txauthor
	github.com/btcsuite/btcwallet/wallet/txrules => /repo/wallet/txrules
	github.com/btcsuite/btcwallet/wallet/txsizes => /repo/wallet/txsizes
	github.com/btcsuite/btcwallet/walletdb => /repo/walletdb
	github.com/btcsuite/btcwallet/wtxmgr => /repo/wtxmgr
)
